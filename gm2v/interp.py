"""Interpreter for the extracted AST.

mode 'float' : IEEE doubles (Python floats); used by the bit-exact fidelity guard.
mode 'sym'   : exact rationals / z3 reals with path exploration; libm as uninterpreted
               functions constrained by instantiated axioms; used by back end B.
"""
import math, itertools
from fractions import Fraction
import z3
from . import cxx
from .cxx import *
from .values import *
from .values import PermMat, SegView, FPUnknown
from . import fpset
from .world import strip_ns

class Thrown(Exception):
    def __init__(self, cls, msg=''):
        self.cls, self.msg = cls, msg
    def __str__(self):
        return 'Thrown(%s: %s)' % (self.cls, self.msg)

class ReturnSig(Exception):
    def __init__(self, v):
        self.v = v
class BreakSig(Exception):
    pass
class ContinueSig(Exception):
    pass
class Infeasible(Exception):
    pass
class PathEnd(Exception):
    """a path that ends inside a loop body checked against its loop contract (the inductive step): its side obligations are the result"""
    def __init__(self, marker):
        self.marker = marker

class LoopContract:
    """loop contract for a `while` loop of the real code (the unbounded route: no unrolling).
    modifies : names written by the loop -- locals ('precision') and members of *this ('this.me2', 'this.problems.x'); everything else must be unchanged
               by one execution of the body (checked: the loop's frame condition)
    invariant: callable(interp, frame) -> list of (label, condition) over the CURRENT state
    choices  : {name: [values]} for integer/bool-valued modified variables (case split instead of a symbolic index)
    variant  : optional callable(interp, frame) -> term; must decrease by >= 1 and be >= 0 whenever the body runs to its end (termination)"""
    def __init__(self, modifies, invariant, choices=None, variant=None, label=''):
        self.modifies, self.invariant, self.choices, self.variant, self.label = list(modifies), invariant, dict(choices or {}), variant, label
class Unsupported(EvalError):
    pass

class Cell:
    __slots__ = ('v',)
    def __init__(self, v):
        self.v = v

class Closure:
    def __init__(self, lam, frame):
        self.lam, self.frame = lam, frame

class BoundMethod:
    def __init__(self, obj, name):
        self.obj, self.name = obj, name

class Frame:
    def __init__(self, fd, this=None, file=None):
        self.fd = fd
        self.this = this
        self.file = file or (fd.file if fd is not None else None)
        self.scopes = [{}]
        self.exit_hooks = [[]]
    def push(self):
        self.scopes.append({}); self.exit_hooks.append([])
    def pop(self):
        self.scopes.pop()
        for h in reversed(self.exit_hooks.pop()):
            h()
    def lookup(self, name):
        for s in reversed(self.scopes):
            if name in s:
                return s[name]
        return None
    def declare(self, name, cell):
        self.scopes[-1][name] = cell

# literal constants that stand for named irrational numbers (assumption A-CONST)
NAMED_CONSTS = [
    # (decimal prefix, name, definition kind, parameter)
    ('1.41421356237309', 'SQRT2', 'sqrt', Fraction(2)),
    ('0.70710678118654', 'ISQRT2', 'sqrt', Fraction(1, 2)),
    ('0.77459666924148', 'SQRT3_5', 'sqrt', Fraction(3, 5)),
    ('0.38729833462074', 'SQRT3_20', 'sqrt', Fraction(3, 20)),
    ('0.5477225575051', 'SQRT3_10', 'sqrt', Fraction(3, 10)),
    ('0.6324555320336', 'SQRT2_5', 'sqrt', Fraction(2, 5)),
    ('1.7320508075688', 'SQRT3', 'sqrt', Fraction(3)),
    ('3.14159265358979', 'PI', 'pi', Fraction(1)),
    ('6.28318530717958', '2PI', 'pi', Fraction(2)),
    ('9.86960440108935', 'PI2', 'pi2', Fraction(1)),
    ('3.28986813369645', 'PI2/3', 'pi2', Fraction(1, 3)),
    ('1.64493406684822', 'PI2/6', 'pi2', Fraction(1, 6)),
    ('0.82246703342411', 'PI2/12', 'pi2', Fraction(1, 12)),
    ('0.00633257397764', '1/(16PI2)', 'invpi2', Fraction(1, 16)),
    ('6.33257397764', '1/(16PI2)', 'invpi2', Fraction(1, 16)),
    ('1.38629436111989', 'LN4', 'ln', Fraction(4)),
    ('0.69314718055994', 'LN2', 'ln', Fraction(2)),
]

def _named_value(kind, par):
    p = float(par)
    return {'sqrt': math.sqrt(p), 'pi': p * math.pi, 'pi2': p * math.pi ** 2, 'invpi2': p / math.pi ** 2, 'ln': math.log(p)}[kind]
NAMED_VALUE = {name: _named_value(kind, par) for prefix, name, kind, par in NAMED_CONSTS}

class Sym:
    """state of one symbolic path"""
    def __init__(self):
        self.pc = []          # branch conditions taken
        self.axioms = []      # assumed facts: libm instances, callee contracts, constants
        self.sides = []       # side obligations: (guard list, condition, description)
        self.guards = []      # local guards (short-circuit / ternary) for side obligations
        self.effects = []
        self.taken = []
        self.axiom_keys = set()
        self.fresh = itertools.count()

class Interp:
    def __init__(self, world, mode='sym', stubs=None, named_consts=True, max_loop=200,
                 feasibility=True, assumptions=None, div_sides=True):
        self.w = world
        self.mode = mode
        self.stubs = dict(stubs or {})
        self.named_consts = named_consts and mode == 'sym'
        self.max_loop = max_loop
        self.sym = Sym()
        self.prefix = []
        self.pending = []
        self.feasibility = feasibility
        self.assumptions = list(assumptions or [])   # global preconditions (z3 Bool)
        self.div_sides = div_sides
        self.frames = []
        self.uf_cache = {}
        self.const_syms = {}
        self.rule_counts = {}
        self.depth = 0
        self.solver_time = 0.0
        self.statics = {}     # (file, func, name) -> Cell : function-local statics are globals
        self.globals = {}     # (file, name) -> Cell
        self.const_axioms = {}
        self.auto_stub = None
        self.domain_events = []
        self.int_narrowing = False       # True: a symbolic integer passed to / stored in an `int` is wrapped to 32 bits unless provably in range
        self.unknown_feasibility = 0     # branches kept only because the solver could not decide them (results built on them are not verdicts)
        self.nonfinite_unknown = False   # True: std::isfinite / allFinite / hasNaN are undetermined (both outcomes explored)
        self.loop_contracts = {}      # (function qualified name, ordinal of the while loop in the function) -> LoopContract
        self._loop_ordinals = {}

    # ---------------------------------------------------------------- counting must-fire rules
    def fire(self, rule):
        self.rule_counts[rule] = self.rule_counts.get(rule, 0) + 1

    # ---------------------------------------------------------------- symbolic helpers
    def uf(self, name, *args):
        key = (name, len(args))
        f = self.uf_cache.get(key)
        if f is None:
            f = z3.Function(name, *([z3.RealSort()] * (len(args) + 1)))
            self.uf_cache[key] = f
        return f(*[z3real(a) for a in args])

    def axiom(self, fact, key=None):
        if key is not None:
            if key in self.sym.axiom_keys:
                return
            self.sym.axiom_keys.add(key)
            if key[0] == 'const':
                # facts about named constants hold on every path (file-scope constants are evaluated once and cached)
                self.const_axioms[key] = fact
        self.sym.axioms.append(fact)

    def new_sym(self):
        s = Sym()
        for k, f in self.const_axioms.items():
            s.axiom_keys.add(k)
            s.axioms.append(f)
        return s

    def side(self, cond, desc):
        """record a side obligation (must hold under the current path condition and guards)"""
        if isinstance(cond, bool):
            if cond:
                return
        self.sym.sides.append((list(self.sym.pc) + list(self.sym.guards), cond, desc))

    def _div_hook(self, den):
        if not self.div_sides:
            return
        line = self.cur_line
        if is_sym(den):
            self.side(z3real(den) != 0, 'division: denominator != 0 at %s:%d' % (self.cur_file(), line))
        elif den == 0:
            self.side(False, 'division by constant zero at %s:%d' % (self.cur_file(), line))

    def cur_file(self):
        for fr in reversed(self.frames):
            if fr.file:
                return self.w.rel(fr.file)
        return '?'

    def decide(self, c):
        if isinstance(c, UnknownBool):
            idx = len(self.sym.taken)
            if idx < len(self.prefix):
                choice = self.prefix[idx]
            else:
                choice = True
                self.pending.append(self.sym.taken + [False])
            self.sym.taken.append(choice)
            if isinstance(c, FPUnknown):
                if not fpset.refine(c.op, c.a, c.b, choice != c.negated):
                    raise Infeasible()
            return choice
        if not is_sym(c):
            return truthy(c)
        c = z3.simplify(c)
        if z3.is_true(c):
            return True
        if z3.is_false(c):
            return False
        idx = len(self.sym.taken)
        if idx < len(self.prefix):
            choice = self.prefix[idx]
        else:
            can_t = self.feasible(c)
            can_f = self.feasible(z3.Not(c))
            if can_t and can_f:
                choice = True
                self.pending.append(self.sym.taken + [False])
            elif can_t:
                choice = True
            elif can_f:
                choice = False
            else:
                raise Infeasible()
        self.sym.taken.append(choice)
        self.sym.pc.append(c if choice else z3.Not(c))
        return choice

    def feasible(self, c):
        if not self.feasibility:
            return True
        import time
        s = z3.Solver()
        s.set('timeout', 1500)
        for a in self.assumptions:
            s.add(a)
        for a in self.sym.pc:
            s.add(a)
        for a in self.sym.guards:
            s.add(a)
        for a in self.sym.axioms:
            s.add(a)
        s.add(c)
        t0 = time.time()
        c0 = time.process_time()
        r = s.check()
        if r == z3.unknown:
            # the timeout is wall-clock time.  If the solver got its share of the CPU the query is genuinely hard: the branch is kept (conservative).  If the
            # process was starved (loaded machine: little CPU time consumed during the wait) that is not an answer: ask again with a long budget.
            if time.process_time() - c0 < 1.0:
                s.set('timeout', 30000)
                r = s.check()
            if r == z3.unknown:
                self.unknown_feasibility += 1
        self.solver_time += time.time() - t0
        return r != z3.unsat

    # ---------------------------------------------------------------- literals
    def literal(self, n):
        if not n.isfloat:
            return n.value
        if self.mode == 'float':
            return float(n.value)
        txt = n.text.rstrip('fFlL')
        if self.named_consts:
            digits = len(txt.lower().split('e')[0].replace('.', '').replace('+', '').replace('-', '').lstrip('0'))
            if digits >= 13:
                val = float(txt)
                for prefix, name, kind, par in NAMED_CONSTS:
                    ref = NAMED_VALUE[name]
                    if abs(val - ref) <= 2e-14 * abs(ref):
                        self.fire('named-const:' + name)
                        return self.named_const(name, kind, par)
        return Fraction(txt)

    def named_const(self, name, kind, par):
        if kind == 'sqrt':
            c = z3.Real('c_' + name)
            self.axiom(z3.And(c > 0, c * c == to_z3(par)), ('const', name))
            return c
        if kind == 'pi':
            c = z3.Real('c_PI')
            self.axiom(z3.And(c > z3.Q(314159265358979, 10**14), c < z3.Q(314159265358980, 10**14)), ('const', 'PI'))
            return mul(par, c) if par != 1 else c
        if kind == 'pi2':
            c = z3.Real('c_PI')
            self.axiom(z3.And(c > z3.Q(314159265358979, 10**14), c < z3.Q(314159265358980, 10**14)), ('const', 'PI'))
            return mul(par, c * c)
        if kind == 'invpi2':
            c = z3.Real('c_PI')
            self.axiom(z3.And(c > z3.Q(314159265358979, 10**14), c < z3.Q(314159265358980, 10**14)), ('const', 'PI'))
            return to_z3(par) / (c * c)
        if kind == 'ln':
            return self.uf('ln', par)
        raise EvalError(kind)

    # ---------------------------------------------------------------- libm
    def m_sqrt(self, x):
        if isinstance(x, Mat):
            return x.map(self.m_sqrt)
        if isinstance(x, Dim):
            return Dim(None if x.d is None else x.d / 2)
        if isinstance(x, fpset.FP):
            return fpset.sqrt(x)
        if self.mode == 'float':
            x = float(x)
            if not x >= 0 and x == x:
                self.domain_events.append(('sqrt: argument >= 0 at %s:%d' % (self.cur_file(), self.cur_line), x))
            return math.sqrt(x) if x >= 0 else math.nan
        if not is_sym(x):
            x = Fraction(x)
            if x < 0:
                raise EvalError('sqrt of negative constant')
            # exact rational square roots stay exact
            import math as _m
            n, d = x.numerator, x.denominator
            rn, rd = _m.isqrt(n), _m.isqrt(d)
            if rn * rn == n and rd * rd == d:
                return Fraction(rn, rd)
        t = z3.simplify(z3real(x))
        s = self.uf('sqrt', t)
        self.side(t >= 0, 'sqrt: argument >= 0 at %s:%d' % (self.cur_file(), self.cur_line))
        self.axiom(z3.Implies(t >= 0, z3.And(s >= 0, s * s == t)), ('sqrt', t.get_id()))
        return s

    def m_complex(self, name, z):
        """complex sqrt/log: exact in float mode (cmath, principal branch), uninterpreted pair of functions in sym mode"""
        if isinstance(z.re, Dim) or isinstance(z.im, Dim):
            d = z.re if isinstance(z.re, Dim) else z.im
            if name == 'sqrt':
                h = Dim(None if d.d is None else d.d / 2)
                return Cx(h, h)
            if d.d not in (None, 0):
                raise DimError('complex log of a quantity with mass dimension %s' % d.d)
            return Cx(Dim(0), Dim(0))
        if self.mode == 'float':
            import cmath
            w = getattr(cmath, name)(complex(z.re, z.im))
            return Cx(w.real, w.imag)
        self.fire('complex-' + name + '->uninterpreted')
        return Cx(self.uf('c%s_re' % name, z.re, z.im), self.uf('c%s_im' % name, z.re, z.im))

    def m_abs(self, x):
        if isinstance(x, Mat):
            return x.map(self.m_abs, cplx=False)
        if isinstance(x, Dim):
            return x
        if isinstance(x, Cx) and (isinstance(x.re, Dim) or isinstance(x.im, Dim)):
            return add(x.re, x.im) if not (isinstance(x.im, (int, float, Fraction)) and x.im == 0) else x.re
        if isinstance(x, Cx):
            if self.mode == 'float':
                return math.hypot(x.re, x.im)
            return self.m_sqrt(add(mul(x.re, x.re), mul(x.im, x.im)))
        if is_sym(x):
            x = z3real(x)
            return z3.If(x >= 0, x, -x)
        if isinstance(x, fpset.FP):
            return fpset.fabs(x)
        return abs(x)

    def m_unary_uf(self, name, pyf, x, domain=None):
        if isinstance(x, Dim):
            if x.d not in (None, 0):
                raise DimError('%s of a quantity with mass dimension %s at %s:%d' % (name, x.d, self.cur_file(), self.cur_line))
            return Dim(0)
        if self.mode == 'float':
            try:
                return pyf(float(x))
            except OverflowError:
                return math.inf          # IEEE: the result overflows to +inf (exp, cosh, ...): Python raises instead
            except ValueError:
                self.domain_events.append(('%s: argument in domain at %s:%d' % (name, self.cur_file(), self.cur_line), float(x)))
                return math.nan
        t = z3.simplify(z3real(x))
        if domain is not None:
            self.side(domain(t), '%s: argument in domain at %s:%d' % (name, self.cur_file(), self.cur_line))
        r = self.uf(name, t)
        self.libm_axioms(name, t, r)
        return r

    def libm_axioms(self, name, t, r):
        if name in ('sin', 'cos'):
            s, c = self.uf('sin', t), self.uf('cos', t)
            self.axiom(s * s + c * c == 1, ('sc1', t.get_id()))
            # addition theorems for sums/differences (instantiated syntactically)
            if z3.is_add(t) and t.num_args() >= 2:
                a = t.arg(0)
                b = t.arg(1) if t.num_args() == 2 else z3.simplify(z3.Sum([t.arg(i) for i in range(1, t.num_args())]))
                self._addition(t, a, b)
                for x in (a, b):
                    self.libm_axioms('sin', x, None)
            elif z3.is_sub(t) and t.num_args() == 2:
                a, b = t.arg(0), t.arg(1)
                self._addition(t, a, z3.simplify(-b), minus=b)
                for x in (a, b):
                    self.libm_axioms('sin', x, None)
            elif z3.is_mul(t) and t.num_args() == 2 and z3.is_rational_value(t.arg(0)) and t.arg(0).numerator_as_long() == -1 and t.arg(0).denominator_as_long() == 1:
                # sin(-x) = -sin x, cos(-x) = cos x
                x = t.arg(1)
                self.axiom(z3.And(self.uf('sin', t) == -self.uf('sin', x), self.uf('cos', t) == self.uf('cos', x)), ('neg', t.get_id()))
                self.libm_axioms('sin', x, None)
            elif z3.is_const(t) and t.decl().name() == 'c_PI':
                self.axiom(z3.And(s == 0, c == -1), ('sinpi',))
        elif name == 'asin':
            s, c = self.uf('sin', r), self.uf('cos', r)
            self.axiom(z3.Implies(z3.And(t >= -1, t <= 1), z3.And(s == t, c >= 0, s * s + c * c == 1)), ('asin', t.get_id()))
        elif name == 'acos':
            s, c = self.uf('sin', r), self.uf('cos', r)
            self.axiom(z3.Implies(z3.And(t >= -1, t <= 1), z3.And(c == t, s >= 0, s * s + c * c == 1)), ('acos', t.get_id()))
        elif name == 'atan':
            s, c = self.uf('sin', r), self.uf('cos', r)
            self.axiom(z3.And(s == t * c, c > 0, s * s + c * c == 1), ('atan', t.get_id()))
        elif name == 'ln':
            pass

    def _addition(self, t, a, b, minus=None):
        sa, ca = self.uf('sin', a), self.uf('cos', a)
        if minus is not None:
            sb, cb = -self.uf('sin', minus), self.uf('cos', minus)
            self.axiom(self.uf('sin', minus) ** 2 + self.uf('cos', minus) ** 2 == 1, ('sc1', minus.get_id()))
        else:
            sb, cb = self.uf('sin', b), self.uf('cos', b)
            self.axiom(sb * sb + cb * cb == 1, ('sc1', b.get_id()))
        self.axiom(sa * sa + ca * ca == 1, ('sc1', a.get_id()))
        self.axiom(z3.And(self.uf('sin', t) == sa * cb + ca * sb, self.uf('cos', t) == ca * cb - sa * sb), ('add', t.get_id()))

    def m_pow(self, x, y):
        if isinstance(x, Dim):
            if isinstance(y, Dim):
                raise DimError('power with a dimensioned exponent')
            return Dim(None if x.d is None else x.d * Fraction(y))
        if isinstance(y, Dim):
            if y.d not in (None, 0):
                raise DimError('dimensionful exponent')
            return Dim(0)
        if self.mode == 'float':
            try:
                return math.pow(float(x), float(y))
            except OverflowError:
                # IEEE pow overflows to +-inf where Python raises (sign: negative base with an odd integer exponent)
                xf, yf_ = float(x), float(y)
                neg = xf < 0 and yf_ == int(yf_) and int(yf_) % 2 == 1
                return -math.inf if neg else math.inf
            except ValueError:
                xf, yf_ = float(x), float(y)
                if xf == 0 and yf_ < 0:
                    # IEEE: pow(+-0, y < 0) is +inf (-inf for -0 and an odd integer y); Python raises "math domain error"
                    odd = yf_ == int(yf_) and int(yf_) % 2 == 1
                    return -math.inf if (odd and math.copysign(1.0, xf) < 0) else math.inf
                return math.nan
        if not is_sym(y):
            yf = Fraction(y)
            if yf.denominator == 1 and abs(yf.numerator) <= 16:
                n = int(yf)
                r = 1
                for _ in range(abs(n)):
                    r = mul(r, x)
                return r if n >= 0 else div(1, r)
            if not is_sym(x):
                # constant irrational power: evaluated in double arithmetic (documented: A-CONST)
                self.fire('const-pow')
                return Fraction(math.pow(float(x), float(y)))
        return self.uf('pow', x, y)

    # ---------------------------------------------------------------- running functions
    def run_paths(self, thunk, max_paths=256):
        """explore all feasible paths of thunk(); returns list of (Sym, result, exception)"""
        results = []
        self.pending = [[]]
        while self.pending:
            if len(results) >= max_paths:
                raise EvalError('too many paths')
            self.prefix = self.pending.pop()
            self.sym = self.new_sym()
            self.frames = []
            old = DivHook.hook
            DivHook.hook = self._div_hook
            try:
                try:
                    v = thunk()
                    results.append((self.sym, v, None))
                except Thrown as t:
                    results.append((self.sym, None, t))
                except PathEnd as pe:
                    results.append((self.sym, pe, None))
                except Infeasible:
                    pass
            finally:
                DivHook.hook = old
        return results

    def run_single(self, thunk):
        """concrete execution (float mode or fully concrete sym mode)"""
        self.sym = self.new_sym()
        self.prefix = []
        self.pending = []
        self.frames = []
        old = DivHook.hook
        DivHook.hook = self._div_hook if self.mode == 'sym' else None
        try:
            return thunk()
        finally:
            DivHook.hook = old

    cur_line = 0

    def call(self, name, args, this=None, file=None):
        """call a free function or (if this is an Obj) a method by name"""
        if this is not None:
            return self.call_method(this, name, args, line=0)
        fds = self.w.find(name, file)
        if not fds:
            raise Unsupported('function %s not found' % name)
        fd = self.resolve_overload(fds, args, name)
        return self.invoke(fd, args, None)

    # ---------------------------------------------------------------- overloads
    def type_score(self, v, ty):
        if ty is None:
            return 0
        n = strip_ns(ty.name)
        if ty.ptr and isinstance(v, Obj):
            return 2 if self.w.is_subclass(v.cls, n) or n == v.cls else 0
        if isinstance(v, Obj):
            if n == v.cls:
                return 3
            if self.w.is_subclass(v.cls, n):
                return 2
            return -5
        if isinstance(v, Mat):
            if n in ('Eigen::Matrix', 'Eigen::Array'):
                try:
                    r, c = ty.args[1], ty.args[2]
                    r = r.value if isinstance(r, Num) else None
                    c = c.value if isinstance(c, Num) else None
                    if (r is not None and r != v.r) or (c is not None and c != v.c):
                        return -5
                except Exception:
                    pass
                # scalar type: a real matrix argument prefers a real-scalar parameter; a complex one cannot bind to a real-scalar parameter
                try:
                    sc = ty.args[0]
                    scn = strip_ns(sc.name) if isinstance(sc, Type) else ''
                    if scn == 'std::complex':
                        return 3 if v.cplx else 2
                    if scn in ('double', 'float', 'Real'):
                        return -5 if v.cplx else 3
                except Exception:
                    pass
                return 3
            if n.startswith('Eigen::') or n in ('Derived', 'T'):
                return 1
            return -5
        if isinstance(v, Cx):
            return 3 if n == 'std::complex' else (-5 if n in ('double', 'int', 'bool', 'unsigned') else 0)
        if isinstance(v, str):
            return 3 if n in ('std::string', 'char') else -5
        if isinstance(v, bool) or (is_sym(v) and z3.is_bool(v)):
            return 3 if n == 'bool' else 1
        if isinstance(v, int):
            if n in ('int', 'unsigned', 'long', 'unsigned int', 'size_t', 'Index_t'):
                return 3
            if n in ('double',):
                return 2
            if n == 'std::complex':
                return 1
            if n in self.w.enums or n.split('::')[-1] in self.w.enums:
                return 2
            if n.startswith('Eigen::'):
                return -5
            return -1 if n in self.w.classes else 0
        if isinstance(v, (float, Fraction, Dim, fpset.FP)) or is_sym(v):
            if n == 'double':
                return 3
            if n in ('int', 'unsigned'):
                return 1
            if n == 'std::complex':
                return 1
            if n.startswith('Eigen::') or n in self.w.classes:
                return -5
            return 0
        return 0

    def resolve_overload(self, fds, args, name):
        cands = []
        for fd in fds:
            np = len(fd.params)
            nreq = len([p for p in fd.params if p.default is None])
            if not (nreq <= len(args) <= np):
                continue
            score = sum(self.type_score(a, p.type) for a, p in zip(args, fd.params))
            # prefer non-const method? irrelevant. prefer .cpp over header duplicates
            cands.append((score, fd))
        if not cands:
            raise Unsupported('no overload of %s for %d args' % (name, len(args)))
        cands.sort(key=lambda x: -x[0])
        return cands[0][1]

    # ---------------------------------------------------------------- invoke
    def invoke(self, fd, args, this, arg_cells=None, targs=None):
        key = strip_ns(fd.qname)
        stub = self.stubs.get(key) or self.stubs.get(key.split('::')[-1])
        if stub is not None:
            return stub(self, args, this)
        body = self.w.body(fd)
        self.depth += 1
        if self.depth > 60:
            raise EvalError('call depth')
        fr = Frame(fd, this)
        if fd.template and targs:
            fr.tbind = {n: (t if isinstance(t, Type) else t) for n, t in zip(fd.template, targs)}
        for i, p in enumerate(fd.params):
            if i < len(args):
                a = args[i]
                cell = None
                if arg_cells is not None and arg_cells[i] is not None and p.type.ref and not p.type.const:
                    cell = arg_cells[i]
                if cell is None:
                    if not p.type.ref and not p.type.ptr:
                        a = deep_copy(a)
                        a = self.convert(a, p.type)
                    cell = Cell(a)
            else:
                self.frames.append(fr)
                try:
                    cell = Cell(self.ev(p.default))
                finally:
                    self.frames.pop()
            if p.name:
                fr.declare(p.name, cell)
        self.frames.append(fr)
        try:
            if fd.inits:
                self.run_ctor_inits(fd, fr)
            try:
                self.exec_block(body, new_scope=False)
                ret = None
            except ReturnSig as r:
                ret = r.v
            finally:
                # function-level exit hooks (RAII)
                for h in reversed(fr.exit_hooks[0]):
                    h()
                fr.exit_hooks[0] = []
        finally:
            self.frames.pop()
            self.depth -= 1
        if fd.ret is not None and not fd.ret.ref and not fd.ret.ptr:
            ret = deep_copy(ret)
            ret = self.convert(ret, fd.ret)
        return ret

    def convert(self, v, ty):
        """implicit conversions at declaration/parameter/return boundaries"""
        if ty is None:
            return v
        n = strip_ns(ty.name)
        if n == 'double':
            if isinstance(v, bool):
                return (1.0 if v else 0.0) if self.mode == 'float' else int(v)
            if isinstance(v, int) and self.mode == 'float':
                return float(v)
            if is_sym(v) and z3.is_int(v):
                return z3.ToReal(v)
            if is_sym(v) and z3.is_bool(v):
                return z3.If(v, z3.RealVal(1), z3.RealVal(0))
            return v
        if n in ('int', 'unsigned', 'long', 'unsigned int', 'Index_t') and not ty.ptr:
            if isinstance(v, bool):
                return int(v)
            if isinstance(v, float):
                if v != v or abs(v) >= 2**31:
                    raise EvalError('float->int conversion out of range (UB)')
                return int(v)
            if isinstance(v, Fraction):
                return int(v)
            if is_sym(v) and z3.is_real(v):
                v = z3.ToInt(v)
            if is_sym(v) and z3.is_int(v) and n == 'int' and self.int_narrowing:
                # implicit conversion to a 32-bit int (parameter passing, initialisation): two's complement wrap-around of a wider integer value.
                # For a value that is in range this is the identity; the solver is told so when it can prove it.
                if not self._provably_int_range(v):
                    self.fire('int-narrowing')
                    v = (v + 2**31) % 2**32 - 2**31
            return v
        if n == 'bool' and not ty.ptr:
            if isinstance(v, (int, float, Fraction)) and not isinstance(v, bool):
                return v != 0
            return v
        if n == 'std::complex' and isinstance(v, (list, tuple)) and len(v) == 2:
            return Cx(v[0], v[1])        # braced initialisation { re, im }
        if n == 'std::complex' and not isinstance(v, Cx) and is_num(v):
            return Cx(v, 0 if self.mode != 'float' else 0.0)
        if n in ('Eigen::Matrix', 'Eigen::Array') and isinstance(v, Mat):
            kind = 'matrix' if n == 'Eigen::Matrix' else 'array'
            cplx = self.type_is_complex(ty.args[0]) if ty.args else v.cplx
            if v.kind != kind or (cplx and not v.cplx):
                v = Mat(v.r, v.c, [list(r) for r in v.d], kind, cplx or v.cplx)
            if v.cplx and not cplx:
                raise EvalError('complex matrix converted to real matrix')
            return v
        return v

    def _provably_int_range(self, v):
        s = z3.Solver()
        s.set('timeout', 1500)
        for a in self.assumptions:
            s.add(a)
        for a in self.sym.pc:
            s.add(a)
        for a in self.sym.guards:
            s.add(a)
        s.add(z3.Or(v < -2**31, v > 2**31 - 1))
        return s.check() == z3.unsat

    def type_is_complex(self, ty):
        return isinstance(ty, Type) and strip_ns(ty.name) == 'std::complex'

    def run_ctor_inits(self, fd, fr):
        this = fr.this
        for nm, args in fd.inits:
            vals = [self.ev(a) for a in args]
            nm_s = strip_ns(nm)
            if nm_s in this.f:
                v = vals[0] if vals else self.default_of_field(this.cls, nm_s)
                this.f[nm_s] = deep_copy(v)
            elif nm_s in self.w.classes:
                # base-class constructor
                ctors = self.w.funcs.get(nm_s + '::' + nm_s, [])
                if ctors and (vals or any(not c.params for c in ctors)):
                    cfd = self.resolve_overload(ctors, vals, nm_s)
                    self.invoke(cfd, vals, this)
                elif vals and isinstance(vals[0], Obj):
                    for k, x in vals[0].f.items():
                        this.f[k] = deep_copy(x)
            else:
                raise Unsupported('ctor init of %s' % nm)

    # ---------------------------------------------------------------- objects
    def new_object(self, cls, symbolic=None, prefix=None):
        """default-initialised object; symbolic: callable(field_path, Type) -> value or None"""
        cls = strip_ns(cls)
        o = Obj(cls)
        for d in self.w.members(cls):
            if getattr(d.type, 'is_static', False) or d.is_static:
                continue
            path = (prefix + '.' if prefix else '') + d.name
            v = None
            if d.dims is not None:
                # C array member: nested lists
                dims = [self.const_int(x) for x in d.dims]
                def build(ix, k):
                    if k == len(dims):
                        nm = path + ''.join('[%d]' % i for i in ix)
                        e = symbolic(nm, d.type, self) if symbolic is not None else None
                        return e if e is not None else self.zero_of_type(d.type)
                    return [build(ix + [i], k + 1) for i in range(dims[k])]
                o.f[d.name] = build([], 0)
                continue
            if symbolic is not None:
                v = symbolic(path, d.type, self)
            if v is None:
                v = self.default_value(d, path, symbolic)
            o.f[d.name] = v
        return o

    def default_of_field(self, cls, name):
        for d in self.w.members(cls):
            if d.name == name:
                return self.default_value(d, name, None)
        raise EvalError('no field ' + name)

    def default_value(self, d, path, symbolic):
        ty = d.type
        fr = Frame(None, None, None)
        self.frames.append(fr)
        try:
            if d.init is not None:
                return self.convert(deep_copy(self.ev(d.init)), ty)
            if d.ctor_args:
                if len(d.ctor_args) == 1:
                    return self.convert(deep_copy(self.ev(d.ctor_args[0])), ty)
                return self.construct(ty, [self.ev(a) for a in d.ctor_args], True)
            return self.zero_of_type(ty, path, symbolic)
        finally:
            self.frames.pop()

    def zero_of_type(self, ty, path=None, symbolic=None):
        n = strip_ns(ty.name)
        tb = self.tbind_lookup(n) if self.frames else None
        if tb is not None:
            n = tb
        if ty.ptr:
            return None
        if n in ('double', 'float'):
            return 0.0 if self.mode == 'float' else 0
        if n in ('int', 'unsigned', 'long', 'unsigned int', 'size_t', 'short', 'char'):
            return 0
        if n == 'bool':
            return False
        if n == 'std::complex':
            z = 0.0 if self.mode == 'float' else 0
            return Cx(z, z)
        if n in ('Eigen::Matrix', 'Eigen::Array'):
            r, c = self.const_int(ty.args[1]), self.const_int(ty.args[2])
            cplx = self.type_is_complex(ty.args[0])
            z = 0.0 if self.mode == 'float' else 0
            return Mat.fill(r, c, Cx(z, z) if cplx else z, 'matrix' if n == 'Eigen::Matrix' else 'array', cplx)
        if n in ('std::string',):
            return ''
        if n in ('std::vector',):
            return []
        if n == 'Eigen::PermutationMatrix':
            return PermMat(self.const_int(ty.args[0]))
        if n not in self.w.classes and n.split('::')[-1] in self.w.classes:
            n = n.split('::')[-1]
        if n in self.w.classes:
            return self.new_object(n, symbolic, path)
        if n in self.w.enums or n.split('::')[-1] in self.w.enums:
            return 0
        return Opaque(n)

    def const_int(self, e):
        if isinstance(e, int):
            return e
        if isinstance(e, Num):
            return e.value
        if isinstance(e, Type):
            # a template arg that parsed as a type name: a constant identifier
            v = self.lookup_name(e.name)
            return v
        v = self.ev(e)
        if not isinstance(v, int):
            raise EvalError('constant int expected')
        return v

    def construct(self, ty, args, braced):
        n = strip_ns(ty.name)
        if ty.ptr and False:
            pass
        if n in ('double', 'float'):
            return self.convert(args[0], Type('double', None, False, False, 0)) if args else (0.0 if self.mode == 'float' else 0)
        if n in ('int', 'unsigned', 'long', 'bool'):
            return self.convert(args[0], ty) if args else 0
        if n == 'T' and len(args) == 1:
            return args[0]
        if n == 'std::complex':
            z = 0.0 if self.mode == 'float' else 0
            if len(args) == 0:
                return Cx(z, z)
            if len(args) == 1:
                return args[0] if isinstance(args[0], Cx) else Cx(args[0], z)
            return Cx(args[0], args[1])
        if n in ('Eigen::Matrix', 'Eigen::Array'):
            if len(args) == 1 and isinstance(args[0], Mat):
                return self.convert(args[0].copy(), ty)
            m = self.zero_of_type(ty)
            if args:
                if len(args) == m.r * m.c and (m.r == 1 or m.c == 1):
                    for i, a in enumerate(args):
                        m.set(i, None, a)
                else:
                    raise Unsupported('matrix constructor with %d args' % len(args))
            return m
        if n in ('std::tuple', 'std::pair'):
            return tuple(args)
        if n == 'std::string':
            return ''.join(str(a) for a in args) if args else ''
        if n not in self.w.classes and n.split('::')[-1] in self.w.classes:
            n = n.split('::')[-1]
        if n not in self.w.classes and getattr(ty, 'args', None):
            # explicit specialisation of a class template: registered under its full name  T<Arg>
            for cand in self.w.classes:
                if cand.startswith(n + '<') and all(strip_ns(a.name).split('::')[-1] in cand for a in ty.args if isinstance(a, Type)):
                    self.fire('class-template-specialisation')
                    n = cand
                    break
        if n in self.w.classes and self.w.is_subclass(n, 'Error'):
            self.fire('exception-object')
            return Obj(n, {'msg': args[0] if args else ''})
        if n in self.w.classes:
            cd = self.w.classes[n]
            ctors = self.w.funcs.get(n + '::' + n, [])
            if len(args) == 1 and isinstance(args[0], Obj) and self.w.is_subclass(args[0].cls, n) and not any(
                    len(c.params) == 1 and strip_ns(c.params[0].type.name) == n for c in ctors):
                return deep_copy(args[0]) if args[0].cls == n else Obj(n, {k: deep_copy(v) for k, v in args[0].f.items() if k in {d.name for d in self.w.members(n)}})
            o = self.new_object(n)
            cands = [c for c in ctors if len([p for p in c.params if p.default is None]) <= len(args) <= len(c.params)]
            if cands:
                cfd = self.resolve_overload(cands, args, n)
                self.invoke(cfd, args, o)
                return o
            if args and braced:
                # aggregate initialisation
                mem = [d for d in self.w.members(n) if not d.is_static]
                for d, a in zip(mem, args):
                    o.f[d.name] = self.convert(deep_copy(a), d.type)
                return o
            if not args:
                return o
            raise Unsupported('constructor %s/%d' % (n, len(args)))
        if braced and n in self.w.known_types and n not in self.w.classes:
            # a `using X = std::tuple<...>` alias
            self.fire('alias-as-tuple')
            return tuple(args)
        if n.endswith('Error') or n.startswith('E'):
            return Obj(n, {'msg': args[0] if args else ''})
        raise Unsupported('construct ' + n)

    # ---------------------------------------------------------------- names
    def lookup_cell(self, name):
        fr = self.frames[-1] if self.frames else None
        if fr is not None:
            c = fr.lookup(name)
            if c is not None:
                return c
            # closures: enclosing frames captured
            cf = getattr(fr, 'closure_parent', None)
            while cf is not None:
                c = cf.lookup(name)
                if c is not None:
                    return c
                cf = getattr(cf, 'closure_parent', None)
        return None

    def tbind_get(self, name):
        for fr in reversed(self.frames):
            tb = getattr(fr, 'tbind', None)
            if tb and name in tb:
                return tb[name]
            if fr.fd is not None:
                break
        return None

    def resolve_targs(self, targs):
        """explicit template arguments are evaluated in the CALLER: names bound by the caller's own template parameters are replaced by their values"""
        if not targs:
            return targs
        out = []
        for t in targs:
            if isinstance(t, Num):
                out.append(t.value)
                continue
            if isinstance(t, Type) and not t.args:
                b = self.tbind_get(strip_ns(t.name))
                if b is not None:
                    out.append(b)
                    continue
            if not isinstance(t, (Type, int)):
                try:
                    v = self.ev(t)
                    if isinstance(v, int):
                        out.append(v)
                        continue
                except Exception:
                    pass
            out.append(t)
        return out

    def tbind_lookup(self, name):
        for fr in reversed(self.frames):
            tb = getattr(fr, 'tbind', None)
            if tb and name in tb:
                t = tb[name]
                return ' '.join(strip_ns(t.name).split()) if isinstance(t, Type) else str(t)
            if fr.fd is not None:
                break
        return None

    def this_obj(self):
        fr = self.frames[-1] if self.frames else None
        while fr is not None:
            if fr.this is not None:
                return fr.this
            fr = getattr(fr, 'closure_parent', None)
        return None

    def lookup_name(self, name):
        c = self.lookup_cell(name)
        if c is not None:
            return c.v
        tbv = self.tbind_get(name) if self.frames else None
        if isinstance(tbv, int) and not isinstance(tbv, bool):
            return tbv
        this = self.this_obj()
        if this is not None and name in this.f:
            return this.f[name]
        s = strip_ns(name)
        if this is not None and s in this.f:
            return this.f[s]
        # enumerators
        if s in self.w.enumerators:
            return self.w.enumerators[s]
        parts = s.split('::')
        for k in range(len(parts)):
            key = '::'.join(parts[k:])
            if key in self.w.enumerators:
                return self.w.enumerators[key]
        # class-scope enumerators: Class::item where enum nested in class
        if len(parts) >= 2 and parts[-1] in self.w.enumerators:
            if parts[-1] in getattr(self.w, '_ambiguous_enumerators', ()):
                raise EvalError('enumerator %s is declared in several enums and %s does not name its class' % (parts[-1], s))
            return self.w.enumerators[parts[-1]]
        # file-scope variables: current file first, then any
        v = self.file_var(s)
        if v is not None:
            return v.v
        if s in ('M_PI',):
            return math.pi if self.mode == 'float' else self.named_const('PI', 'pi', Fraction(1))
        if s == 'std::cout':
            return Opaque('cout')
        if s == 'std::cerr':
            return Opaque('cerr')
        if s in ('std::endl', 'std::scientific', 'std::fixed'):
            return Opaque(s)
        if s in ('EXIT_SUCCESS', 'EXIT_FAILURE'):
            return 0 if s == 'EXIT_SUCCESS' else 1
        if s == 'GM2CALC_VERSION':
            return 'GM2CALC_VERSION'
        raise Unsupported('unknown name %s at %s:%d' % (name, self.cur_file(), self.cur_line))

    def file_var_in(self, f, s):
        fr = Frame(None, None, f)
        self.frames.append(fr)
        try:
            c = self.file_var(s)
            if c is None:
                raise EvalError('no file-scope variable ' + s)
            return c.v
        finally:
            self.frames.pop()

    def file_var(self, s):
        files = []
        for fr in reversed(self.frames):
            if fr.file and fr.file not in files:
                files.append(fr.file)
        last = s.split('::')[-1]
        for f in files + [p for p in self.w.filevars if p not in files]:
            vd = self.w.filevars.get(f, {}).get(last)
            if vd is not None:
                key = (f, last)
                if key not in self.globals:
                    fr = Frame(None, None, f)
                    self.frames.append(fr)
                    try:
                        d = vd.decl
                        if d.init is not None:
                            if d.dims is not None and isinstance(d.init, InitList):
                                v = [self.ev(x) for x in d.init.items]
                            else:
                                v = self.convert(self.ev(d.init), d.type)
                        elif d.ctor_args:
                            v = self.convert(self.ev(d.ctor_args[0]), d.type) if len(d.ctor_args) == 1 else self.construct(d.type, [self.ev(a) for a in d.ctor_args], True)
                        else:
                            v = self.zero_of_type(d.type)
                    finally:
                        self.frames.pop()
                    self.globals[key] = Cell(v)
                return self.globals[key]
        return None

    def concretize_index(self, i, lim):
        """a symbolic matrix index (e.g. the result of a ternary) is resolved by case split over its range: every feasible value is its own path"""
        if isinstance(i, int):
            return i
        if isinstance(i, Fraction) and i.denominator == 1:
            return int(i)
        if self.mode == 'sym' and is_sym(i):
            self.fire('index-case-split')
            for k_ in range(lim):
                if self.decide(z3real(i) == k_):
                    return k_
            raise EvalError('matrix index %s outside [0,%d) on a feasible path' % (i, lim))
        raise Unsupported('symbolic matrix index')

    # ---------------------------------------------------------------- loop contracts
    def loop_contract_for(self, node):
        fr = self.frames[-1]
        fd = fr.fd
        if fd is None:
            return None
        key = id(fd)
        if key not in self._loop_ordinals:
            order = []
            def walk(n):
                if isinstance(n, Node):
                    if isinstance(n, While):
                        order.append(id(n))
                    if isinstance(n, Lambda):
                        return
                    for f in n._fields:
                        walk(getattr(n, f, None))
                elif isinstance(n, (list, tuple)):
                    for x in n:
                        walk(x)
            walk(fd.body)
            self._loop_ordinals[key] = {nid: i for i, nid in enumerate(order)}
        ordn = self._loop_ordinals[key].get(id(node))
        qn = fd.qname if isinstance(fd.qname, str) else '::'.join(fd.qname)
        # content keys: (function, frozenset of identifiers that the loop condition mentions) -- independent of the kind of loop (while / for) and of its position
        ids = None
        for (fn_, sel), lc in self.loop_contracts.items():
            if isinstance(sel, frozenset) and fn_ in (qn, qn.split('::')[-1]):
                if ids is None:
                    ids = self._cond_identifiers(node.c)
                if sel <= ids:
                    return lc
        if ordn is None:
            return None
        return self.loop_contracts.get((qn, ordn)) or self.loop_contracts.get((qn.split('::')[-1], ordn))

    def _cond_identifiers(self, c):
        out = set()
        def walk(n):
            if isinstance(n, Node):
                if isinstance(n, Id):
                    out.add(n.name.split('::')[-1])
                for f in n._fields:
                    walk(getattr(n, f, None))
            elif isinstance(n, (list, tuple)):
                for x in n:
                    walk(x)
        walk(c)
        return frozenset(out)

    def _loop_cell(self, fr, name):
        """(getter, setter) of a modified location: local variable or (nested) member of *this"""
        if name.startswith('this.'):
            parts = name.split('.')[1:]
            o = fr.this
            for pth in parts[:-1]:
                o = o.f[pth]
            last = parts[-1]
            if last not in o.f:
                raise EvalError('loop contract: no member %s' % name)
            return (lambda: o.f[last]), (lambda v: o.f.__setitem__(last, v))
        c = fr.lookup(name)
        if c is None:
            raise EvalError('loop contract: no local variable %s at the loop head' % name)
        return (lambda: c.v), (lambda v: setattr(c, 'v', v))

    def _fresh_like(self, v, name, lc):
        tag = 'loop!%s!%d' % (name.replace('this.', ''), next(self.sym.fresh))
        if name in lc.choices:
            vals = list(lc.choices[name])
            for cand in vals[:-1]:
                if self.decide(UnknownBool()):
                    return cand
            return vals[-1]
        if isinstance(v, bool):
            return self.decide(UnknownBool())
        if isinstance(v, Mat):
            def el(i, j, old):
                if isinstance(old, Cx) or v.cplx:
                    return Cx(z3.Real('%s(%d,%d).re' % (tag, i, j)), z3.Real('%s(%d,%d).im' % (tag, i, j)))
                return z3.Real('%s(%d,%d)' % (tag, i, j))
            return Mat(v.r, v.c, [[el(i, j, v.d[i][j]) for j in range(v.c)] for i in range(v.r)], v.kind, v.cplx)
        if isinstance(v, Cx):
            return Cx(z3.Real(tag + '.re'), z3.Real(tag + '.im'))
        if isinstance(v, int) and not isinstance(v, bool):
            return z3.Real(tag)          # loop counters: an arbitrary value (constrained by the invariant)
        if is_sym(v) or isinstance(v, (Fraction, float)):
            return z3.Real(tag)
        raise EvalError('loop contract: cannot havoc %s of type %s' % (name, type(v).__name__))

    def _loop_snapshot(self, fr):
        snap = {}
        for sc in fr.scopes:
            for n, c in sc.items():
                if isinstance(c, Cell):
                    snap[n] = deep_copy(c.v)
        def rec(o, prefix):
            for n, v in o.f.items():
                if isinstance(v, Obj):
                    rec(v, prefix + n + '.')
                else:
                    snap[prefix + n] = deep_copy(v)
        if isinstance(fr.this, Obj):
            rec(fr.this, 'this.')
        return snap

    @staticmethod
    def _same_value(a, b):
        if isinstance(a, Mat) and isinstance(b, Mat):
            return (a.r, a.c) == (b.r, b.c) and all(Interp._same_value(x, y) for x, y in zip(a.elems(), b.elems()))
        if isinstance(a, Cx) or isinstance(b, Cx):
            a, b = cx(a), cx(b)
            return Interp._same_value(a.re, b.re) and Interp._same_value(a.im, b.im)
        if is_sym(a) or is_sym(b):
            try:
                return z3.eq(z3.simplify(z3real(a)), z3.simplify(z3real(b)))
            except Exception:
                return False
        if isinstance(a, list) and isinstance(b, list):
            return len(a) == len(b) and all(Interp._same_value(x, y) for x, y in zip(a, b))
        try:
            return a == b
        except Exception:
            return a is b

    def exec_while_contract(self, s, lc, step=None):
        """Hoare rule for while: invariant on entry; then from an ARBITRARY state satisfying the invariant either the condition is false (execution
        continues after the loop) or the body runs once and must re-establish the invariant (that path ends there); break/return leave from the
        arbitrary state.  Sound for any number of iterations; the frame condition (only `modifies` changes) is checked on the body."""
        fr = self.frames[-1]
        where = '%s:%d' % (self.cur_file(), s.line or self.cur_line)
        self.fire('loop-contract')
        for label, cond in lc.invariant(self, fr):
            self.side(cond, 'loop invariant "%s" holds on entry at %s' % (label, where))
        for name in lc.modifies:
            get, put = self._loop_cell(fr, name)
            put(self._fresh_like(get(), name, lc))
        for label, cond in lc.invariant(self, fr):
            if isinstance(cond, bool):
                if not cond:
                    raise Infeasible()
                continue
            self.sym.pc.append(cond)
        if not self.feasible(z3.BoolVal(True)):
            raise Infeasible()
        before = self._loop_snapshot(fr)
        v0 = lc.variant(self, fr) if lc.variant else None
        if not self.decide(self.ev(s.c)):
            return                      # loop exit from an arbitrary invariant state
        try:
            self.exec_scoped(s.body)
        except BreakSig:
            self._loop_frame_check(fr, lc, before, where)
            return                      # break: continue after the loop with the state reached
        except ContinueSig:
            pass
        if step is not None:
            self.ev(step)               # for (init; cond; step): the step expression runs after the body and after `continue`
        self._loop_frame_check(fr, lc, before, where)
        for label, cond in lc.invariant(self, fr):
            self.side(cond, 'loop invariant "%s" preserved by the body at %s' % (label, where))
        if v0 is not None:
            v1 = lc.variant(self, fr)
            self.side(z3.And(z3real(v1) <= z3real(v0) - 1, z3real(v0) >= 0), 'loop variant decreases and is bounded below at %s' % where)
        raise PathEnd('loop body checked at %s' % where)

    def _loop_frame_check(self, fr, lc, before, where):
        after = self._loop_snapshot(fr)
        for n, v in after.items():
            if n in before and n not in lc.modifies and not self._same_value(before[n], v):
                self.side(False, 'loop frame: %s is modified by the body at %s but is not in the contract\'s modifies set' % (n, where))

    # ---------------------------------------------------------------- statements
    def exec_block(self, b, new_scope=True):
        fr = self.frames[-1]
        if new_scope:
            fr.push()
        try:
            for s in b.stmts:
                self.exec_stmt(s)
        finally:
            if new_scope:
                fr.pop()

    def exec_stmt(self, s):
        self.cur_line = s.line or self.cur_line
        k = type(s)
        if k is Block:
            return self.exec_block(s)
        if k is Decl:
            return self.exec_decl(s)
        if k is DeclGroup:
            for d in s.decls:
                self.exec_decl(d)
            return
        if k is ExprStmt:
            self.ev(s.e)
            return
        if k is If:
            c = self.ev(s.c)
            if self.decide(c):
                self.exec_scoped(s.a)
            elif s.b is not None:
                self.exec_scoped(s.b)
            return
        if k is Return:
            v = self.ev(s.e) if s.e is not None else None
            if self.depth == 1:
                self.sym.ret_line = s.line
            raise ReturnSig(v)
        if k is Throw:
            if s.e is None:
                raise self.current_exc
            v = self.ev(s.e)
            raise self.make_thrown(v)
        if k is For:
            fr = self.frames[-1]
            fr.push()
            try:
                if s.init is not None:
                    self.exec_stmt(s.init)
                lc = self.loop_contract_for(s) if self.mode == 'sym' and self.loop_contracts and s.c is not None else None
                if lc is not None:
                    return self.exec_while_contract(s, lc, step=s.step)
                n = 0
                while True:
                    if s.c is not None:
                        if not self.decide(self.ev(s.c)):
                            break
                    try:
                        self.exec_scoped(s.body)
                    except BreakSig:
                        break
                    except ContinueSig:
                        pass
                    if s.step is not None:
                        self.ev(s.step)
                    n += 1
                    if n > self.max_loop:
                        raise Unsupported('loop exceeds %d iterations (needs invariant)' % self.max_loop)
            finally:
                fr.pop()
            return
        if k is While:
            lc = self.loop_contract_for(s) if self.mode == 'sym' and self.loop_contracts else None
            if lc is not None:
                return self.exec_while_contract(s, lc)
            n = 0
            while self.decide(self.ev(s.c)):
                try:
                    self.exec_scoped(s.body)
                except BreakSig:
                    break
                except ContinueSig:
                    pass
                n += 1
                if n > self.max_loop:
                    raise Unsupported('loop exceeds %d iterations (needs invariant)' % self.max_loop)
            return
        if k is DoWhile:
            n = 0
            while True:
                try:
                    self.exec_scoped(s.body)
                except BreakSig:
                    break
                except ContinueSig:
                    pass
                if not self.decide(self.ev(s.c)):
                    break
                n += 1
                if n > self.max_loop:
                    raise Unsupported('loop exceeds %d iterations' % self.max_loop)
            return
        if k is Switch:
            return self.exec_switch(s)
        if k is Break:
            raise BreakSig()
        if k is Continue:
            raise ContinueSig()
        if k is Try:
            return self.exec_try(s)
        if k is Empty or k is LocalClass:
            return
        if k is RangeFor:
            rng = self.ev(s.range)
            if isinstance(rng, Mat):
                rng = rng.elems()
            if isinstance(rng, PyModel):
                rng = rng.iterate(self)
            if not isinstance(rng, (list, tuple)):
                raise Unsupported('range-for over %r' % (rng,))
            fr = self.frames[-1]
            for item in rng:
                fr.push()
                try:
                    fr.declare(s.decl.name, Cell(item))
                    try:
                        self.exec_scoped(s.body)
                    except BreakSig:
                        break
                    except ContinueSig:
                        pass
                finally:
                    fr.pop()
            return
        raise Unsupported('statement %s' % k.__name__)

    def exec_scoped(self, s):
        if isinstance(s, Block):
            self.exec_block(s)
        else:
            fr = self.frames[-1]
            fr.push()
            try:
                self.exec_stmt(s)
            finally:
                fr.pop()

    def exec_switch(self, s):
        v = self.ev(s.e)
        start = None
        default = None
        for ci, (labels, stmts) in enumerate(s.cases):
            hit = False
            for lab in labels:
                if lab is None:
                    default = ci
                    continue
                lv = self.ev(lab)
                if self.decide(cmp('==', v, lv)):
                    hit = True
                    break
            if hit:
                start = ci
                break
        if start is None:
            start = default
        if start is None:
            return
        fr = self.frames[-1]
        fr.push()
        try:
            for labels, stmts in s.cases[start:]:
                for st in stmts:
                    self.exec_stmt(st)
        except BreakSig:
            pass
        finally:
            fr.pop()

    current_exc = None

    def make_thrown(self, v):
        if isinstance(v, Obj):
            return Thrown(v.cls, v.f.get('msg', ''))
        return Thrown(type(v).__name__, str(v))

    def exc_matches(self, exc_cls, ty):
        if ty is None:
            return True
        n = strip_ns(ty.name)
        e = strip_ns(exc_cls)
        if n == e:
            return True
        if self.w.is_subclass(e, n):
            return True
        if n in ('std::exception',):
            # gm2calc::Error derives from std::exception? check class bases as written
            b = [e] + self.w.bases(e)
            for c in b:
                cd = self.w.classes.get(c)
                if cd and any(strip_ns(x) == 'std::exception' for x in cd.bases):
                    return True
            return e.startswith('std::')
        return False

    def exec_try(self, s):
        try:
            self.exec_block(s.body)
        except Thrown as t:
            for ty, nm, blk in s.handlers:
                if self.exc_matches(t.cls, ty):
                    fr = self.frames[-1]
                    fr.push()
                    old = self.current_exc
                    self.current_exc = t
                    try:
                        if nm:
                            fr.declare(nm, Cell(Obj(t.cls, {'msg': t.msg})))
                        self.exec_block(blk)
                    finally:
                        self.current_exc = old
                        fr.pop()
                    return
            raise

    def exec_decl(self, d):
        fr = self.frames[-1]
        ty = d.type
        n = strip_ns(ty.name)
        if d.is_static or getattr(ty, 'is_static', False):
            # function-local static: a global as far as frames are concerned
            key = (fr.file, fr.fd.qname if fr.fd else '?', d.name)
            self.fire('local-static')
            if key not in self.statics:
                self.statics[key] = Cell(self._decl_value(d))
            fr.declare(d.name, self.statics[key])
            return
        if d.dims is not None:
            # C array
            if isinstance(d.init, InitList):
                v = [self.ev(x) for x in d.init.items]
            elif d.ctor_args is not None:
                v = [self.ev(x) for x in d.ctor_args]
            elif d.init is not None:
                v = self.ev(d.init)
            else:
                ndim = self.const_int(d.dims[0])
                v = [self.zero_of_type(ty) for _ in range(ndim)]
            dim = d.dims[0]
            if dim is not None:
                ndim = self.const_int(dim)
                z = 0.0 if self.mode == 'float' else 0
                while len(v) < ndim:
                    v.append(z)
            if self.mode == 'float' and n == 'double':
                v = [float(x) if isinstance(x, int) else x for x in v]
            fr.declare(d.name, Cell(v))
            return
        if ty.ref and d.init is not None:
            # reference: alias when possible
            cell = self.try_lvalue_cell(d.init)
            if cell is not None:
                fr.declare(d.name, cell)
                return
            fr.declare(d.name, Cell(self.ev(d.init)))
            return
        fr.declare(d.name, Cell(self._decl_value(d)))

    def _decl_value(self, d):
        ty = d.type
        n = strip_ns(ty.name)
        if d.init is not None:
            if isinstance(d.init, InitList) and n != 'auto':
                return self.construct(ty, [self.ev(x) for x in d.init.items], True)
            v = self.ev(d.init)
            if n == 'auto':
                return deep_copy(v) if not ty.ref else v
            return self.convert(deep_copy(v), ty)
        if d.ctor_args is not None:
            args = [self.ev(a) for a in d.ctor_args]
            if n == 'auto':
                return deep_copy(args[0])
            if len(args) == 1 and not (n in self.w.classes):
                return self.convert(deep_copy(args[0]), ty) if not isinstance(args[0], Mat) or n in ('Eigen::Matrix', 'Eigen::Array') else deep_copy(args[0])
            return self.construct(ty, args, d.braced)
        if n in self.w.classes or n.split('::')[-1] in self.w.classes:
            return self.construct(ty, [], False)
        if n.endswith('PlainObject'):
            fr = self.frames[-1]
            for sc in fr.scopes:
                for c in sc.values():
                    if isinstance(c.v, Mat):
                        self.fire('eigen-PlainObject')
                        z = 0.0 if self.mode == 'float' else 0
                        return Mat.fill(c.v.r, c.v.c, z, c.v.kind, c.v.cplx)
        v = self.zero_of_type(ty)
        # no initialiser: fixed-size Eigen objects and built-in scalars hold indeterminate values until they are written
        where = '`%s` declared at %s:%d' % (d.name, self.cur_file(), d.line or self.cur_line)
        if isinstance(v, Mat) and n in ('Eigen::Matrix', 'Eigen::Array'):
            self.fire('uninitialised-local')
            u = Undef(where)
            return Mat(v.r, v.c, [[(Cx(u, u) if v.cplx else u) for _ in range(v.c)] for _ in range(v.r)], v.kind, v.cplx)
        if n in ('double', 'float', 'int', 'unsigned', 'long', 'bool') and not ty.ptr and not ty.ref and v is not None and not isinstance(v, (Mat, Cx)):
            self.fire('uninitialised-local')
            return Undef(where)
        return v

    def try_lvalue_cell(self, e):
        if isinstance(e, Id):
            c = self.lookup_cell(e.name)
            if c is not None:
                return c
            this = self.this_obj()
            if this is not None and e.name in this.f:
                return FieldCell(this, e.name)
        if isinstance(e, Member) and not isinstance(e.e, Call):
            try:
                o = self.ev(e.e)
            except Unsupported:
                return None
            if isinstance(o, Obj) and e.name in o.f:
                return FieldCell(o, e.name)
        if isinstance(e, Unary) and e.op == '*':
            v = self.ev(e.e)
            if isinstance(v, Cell) or isinstance(v, FieldCell):
                return v
        return None

    # ---------------------------------------------------------------- expressions
    def ev(self, e):
        k = type(e)
        m = getattr(self, 'ev_' + k.__name__, None)
        if m is None:
            raise Unsupported('expression %s' % k.__name__)
        if getattr(e, 'line', 0):
            self.cur_line = e.line
        return m(e)

    def ev_Num(self, e):
        return self.literal(e)
    def ev_Str(self, e):
        v = e.value
        if '\\' in v:
            v = v.replace('\\n', '\n').replace('\\t', '\t').replace('\\"', '"').replace('\\\\', '\\')
        return v
    def ev_Chr(self, e):
        return e.value.replace('\\n', '\n')
    def ev_BoolLit(self, e):
        return e.value
    def ev_Comma(self, e):
        l = self.ev(e.l)
        if isinstance(l, CommaInit):
            l.push(self.ev(e.r))
            return l
        return self.ev(e.r)

    def ev_Id(self, e):
        if e.name == 'this':
            return self.this_obj()
        if e.name.endswith('RowsAtCompileTime') or e.name.endswith('ColsAtCompileTime'):
            fr = self.frames[-1]
            for sc in fr.scopes:
                for c in sc.values():
                    if isinstance(c.v, Mat):
                        self.fire('eigen-compile-time-size')
                        return c.v.r if e.name.endswith('RowsAtCompileTime') else c.v.c
        if e.targs is not None:
            n = strip_ns(e.name)
            if n.startswith('std::numeric_limits'):
                raise Unsupported('numeric_limits used as value')
            if n == 'std::is_same<>::value':
                names = []
                for t in e.targs:
                    tn = ' '.join(strip_ns(t.name).split()) if isinstance(t, Type) else str(t)
                    tb = self.tbind_lookup(tn)
                    names.append(tb if tb is not None else tn)
                self.fire('is_same-evaluated')
                return names[0] == names[1]
            if n in ('std::is_integral<>::value', 'std::is_signed<>::value', 'std::is_unsigned<>::value', 'std::is_floating_point<>::value', 'std::is_arithmetic<>::value') and e.targs:
                t = e.targs[0]
                tn = ' '.join(strip_ns(t.name).split()) if isinstance(t, Type) else str(t)
                tb = self.tbind_lookup(tn)
                tn = tb if tb is not None else tn
                tn = {'Eigen::Index': 'long', 'Index_t': 'long', 'std::size_t': 'unsigned long', 'size_t': 'unsigned long', 'std::ptrdiff_t': 'long'}.get(tn, tn)
                INTS = {'int', 'long', 'long long', 'short', 'char', 'unsigned', 'unsigned int', 'unsigned long', 'unsigned long long', 'bool', 'signed char', 'unsigned char', 'unsigned short'}
                FLOATS = {'float', 'double', 'long double'}
                if tn not in INTS | FLOATS:
                    raise Unsupported('type trait of %s' % tn)
                self.fire('type-trait-evaluated')
                what = n.split('<')[0].split('::')[-1]
                return {'is_integral': tn in INTS, 'is_floating_point': tn in FLOATS, 'is_arithmetic': True,
                        'is_signed': tn in FLOATS or (tn in INTS and not tn.startswith('unsigned') and tn != 'bool'),
                        'is_unsigned': tn in INTS and (tn.startswith('unsigned') or tn == 'bool')}[what]
            if n.startswith('std::is_') or n.endswith('<>::value'):
                raise Unsupported('type trait')
        return self.lookup_name(e.name)

    def ev_InitList(self, e):
        return [self.ev(x) for x in e.items]

    def ev_Log(self, e):
        self.fire('log-macro:' + e.level)
        txt = ' '.join(t.v for t in e.toks)
        # evaluate the streamed message where possible (message variables, string literals); the raw tokens otherwise
        try:
            toks = [Tok(t.k, t.v, t.pos, t.line) for t in e.toks] + [Tok('eof', '', 0, 0)]
            ex = cxx.Parser(toks, known_types=self.w.known_types).parse_expr()
            parts = []
            def flat(x):
                if isinstance(x, Binary) and x.op == '<<':
                    flat(x.l); flat(x.r)
                else:
                    parts.append(x)
            flat(ex)
            vals = []
            for p_ in parts:
                v = self.ev(p_)
                vals.append(v if isinstance(v, str) else str(v)[:60])
            txt = ''.join(vals)
        except (EvalError, cxx.ParseError, Thrown):
            pass
        self.sym.effects.append((e.level, txt, self.cur_line))
        return None

    def ev_Lambda(self, e):
        return Closure(e, self.frames[-1])

    def ev_Throw(self, e):
        v = self.ev(e.e)
        raise self.make_thrown(v)

    def ev_Cast(self, e):
        v = self.ev(e.e)
        if e.kind in ('reinterpret_cast', 'const_cast'):
            return v
        if e.type.ptr:
            return v
        n = strip_ns(e.type.name)
        tb = self.tbind_lookup(n) if self.frames else None
        if tb is not None and isinstance(tb, str) and tb in ('int', 'long', 'unsigned', 'double'):
            return self.convert(v, Type(tb, None, False, False, 0))
        if n in self.w.enums or n.split('::')[-1] in self.w.enums:
            return self.convert(v, Type('int', None, False, False, 0))
        if n in ('int', 'unsigned', 'long') and is_sym(v) and z3.is_real(v):
            # the conversion is defined only if the (truncated) value is representable: side obligation (C14)
            lo, hi = (0, 2**32 - 1) if n == 'unsigned' else (-2**31, 2**31 - 1)
            self.side(z3.And(v > lo - 1, v < hi + 1), 'conversion: float->%s defined (value in range) at %s:%d' % (n, self.cur_file(), self.cur_line))
            self.fire('float->int-cast')
            return z3.ToInt(v)
        return self.convert(v, e.type)

    def ev_Construct(self, e):
        args = [self.ev(a) for a in e.args]
        return self.construct(e.type, args, e.braced)

    def ev_Unary(self, e):
        op = e.op
        if op == '-':
            return neg(self.ev(e.e))
        if op == '+':
            return self.ev(e.e)
        if op == '!':
            return lnot(self.ev(e.e))
        if op in ('++', '--'):
            g, s = self.lvalue(e.e)
            cur = g()
            if isinstance(cur, PyModel) and hasattr(cur, 'advance'):
                v = cur.advance(self, 1 if op == '++' else -1)
            elif isinstance(cur, tuple) and cur and cur[0] == 'vit':
                v = ('vit', cur[1], cur[2] + (1 if op == '++' else -1))
            else:
                v = add(cur, 1) if op == '++' else sub(cur, 1)
            s(v)
            return v
        if op == '*':
            v = self.ev(e.e)
            if isinstance(v, (Cell, FieldCell)):
                return v.v
            if isinstance(v, tuple) and v and v[0] == 'vit':
                return v[1][v[2]]
            if isinstance(v, PyModel) and hasattr(v, 'deref'):
                return v.deref(self)
            return v     # pointers to objects are the objects
        if op == '&':
            c = self.try_lvalue_cell(e.e)
            if c is not None and not isinstance(c.v, (Obj,)):
                return c
            return self.ev(e.e)
        raise Unsupported('unary ' + op)

    def ev_Postfix(self, e):
        g, s = self.lvalue(e.e)
        old = g()
        if isinstance(old, tuple) and old and old[0] == 'vit':
            s(('vit', old[1], old[2] + (1 if e.op == '++' else -1)))
            return old
        s(add(old, 1) if e.op == '++' else sub(old, 1))
        return old

    def ev_Binary(self, e):
        op = e.op
        if op == '&&':
            l = self.ev(e.l)
            if isinstance(l, FPUnknown):
                l = self.decide(l)
            if not is_sym(l):
                if not truthy(l):
                    return False
                return self.ev(e.r)
            self.sym.guards.append(l)
            try:
                r = self.ev(e.r)
            finally:
                self.sym.guards.pop()
            return land(l, r)
        if op == '||':
            l = self.ev(e.l)
            if isinstance(l, FPUnknown):
                l = self.decide(l)
            if not is_sym(l):
                if truthy(l):
                    return True
                return self.ev(e.r)
            self.sym.guards.append(z3.Not(l))
            try:
                r = self.ev(e.r)
            finally:
                self.sym.guards.pop()
            return lor(l, r)
        if op == '<<':
            l = self.ev(e.l)
            if isinstance(l, Opaque) or isinstance(l, Stream):
                r = self.ev(e.r)
                self.fire('stream-output')
                if isinstance(l, Stream):
                    l.items.append(r)
                else:
                    self.sym.effects.append(('out:' + l.what, r, self.cur_line))
                return l
            if isinstance(l, Mat):
                # Eigen comma initialiser: M << a, b, c   (row-major fill)
                ci = CommaInit(l)
                ci.push(self.ev(e.r))
                self.fire('eigen-comma-initialiser')
                return ci
            r = self.ev(e.r)
            return l << r
        l = self.ev(e.l)
        r = self.ev(e.r)
        if op == '+':
            if isinstance(l, str) or isinstance(r, str):
                return str(l) + str(r)
            return add(l, r)
        if op == '-':
            return sub(l, r)
        if op == '*':
            return mul(l, r)
        if op == '/':
            return div(l, r)
        if op == '%':
            if isinstance(l, FormatObj):
                l.args.append(r)
                return l
            return mod(l, r)
        if op in ('<', '>', '<=', '>=', '==', '!='):
            if isinstance(l, PyModel) and hasattr(l, 'equals'):
                eqv = l.equals(r)
                return eqv if op == '==' else (not eqv)
            if isinstance(l, PyModel) or isinstance(r, PyModel) or (isinstance(l, tuple) and l and l[0] in ('iter', 'vit')) or (isinstance(r, tuple) and r and r[0] in ('iter', 'vit')):
                if isinstance(l, tuple) and isinstance(r, tuple) and l[0] == 'vit' and r[0] == 'vit':
                    eqv = (l[1] is r[1] and l[2] == r[2])
                else:
                    eqv = (l == r)
                return eqv if op == '==' else (not eqv)
            if l is None or r is None or isinstance(l, (Obj, Cell, FieldCell)) or isinstance(r, (Obj, Cell, FieldCell)):
                # pointer comparison: an object / a cell is a non-null pointer; two pointers are equal iff they designate the same thing
                if op == '==':
                    return l is r or (l in (None, 0) and r in (None, 0))
                if op == '!=':
                    return not (l is r or (l in (None, 0) and r in (None, 0)))
            return cmp(op, l, r)
        if op in ('|', '&', '^') and isinstance(l, int) and isinstance(r, int):
            return {'|': l | r, '&': l & r, '^': l ^ r}[op]
        if op == '>>' and isinstance(l, int):
            return l >> r
        raise Unsupported('binary ' + op)

    def ev_Cond(self, e):
        c = self.ev(e.c)
        if not is_sym(c):
            return self.ev(e.a) if truthy(c) else self.ev(e.b)
        c = z3.simplify(c)
        if z3.is_true(c):
            return self.ev(e.a)
        if z3.is_false(c):
            return self.ev(e.b)
        self.sym.guards.append(c)
        try:
            a = self.ev(e.a)
        finally:
            self.sym.guards.pop()
        self.sym.guards.append(z3.Not(c))
        try:
            b = self.ev(e.b)
        finally:
            self.sym.guards.pop()
        return ite(c, a, b)

    def ev_Assign(self, e):
        if e.op == '=' and isinstance(e.l, Call) and isinstance(e.l.f, Id) and strip_ns(e.l.f.name) == 'std::tie':
            v = self.ev(e.r)
            if not isinstance(v, tuple) or len(v) != len(e.l.args):
                raise Unsupported('std::tie with non-tuple')
            for a, x in zip(e.l.args, v):
                g, s = self.lvalue(a)
                s(x)
            return v
        g, s = self.lvalue(e.l)
        r = self.ev(e.r)
        if e.op == '=':
            v = deep_copy(r)
            cur = None
            try:
                cur = g()
            except Exception:
                cur = None
            if isinstance(cur, Mat) and isinstance(v, Mat):
                if (cur.r, cur.c) != (v.r, v.c):
                    raise EvalError('matrix assignment size mismatch')
                if v.cplx and not cur.cplx:
                    raise EvalError('complex matrix assigned to real matrix')
                v = Mat(v.r, v.c, v.d, cur.kind, cur.cplx)
                if cur.cplx and not v.cplx or cur.cplx:
                    v = v.map(lambda x: x if isinstance(x, Cx) else Cx(x, 0.0 if self.mode == 'float' else 0), cplx=True)
            elif isinstance(cur, Cx) and not isinstance(v, Cx) and is_num(v):
                v = Cx(v, 0.0 if self.mode == 'float' else 0)
            elif isinstance(cur, float) and isinstance(v, int) and not isinstance(v, bool):
                v = float(v)
            elif isinstance(cur, int) and not isinstance(cur, bool) and isinstance(v, float) and self.mode == 'float' and self._decl_is_int(e.l):
                v = self.convert(v, Type('int', None, False, False, 0))
            s(v)
            return v
        cur = g()
        op = e.op[:-1]
        v = {'+': add, '-': sub, '*': mul, '/': div}[op](cur, r) if op in '+-*/' else None
        if v is None:
            raise Unsupported('assignment ' + e.op)
        if isinstance(cur, str):
            v = cur + str(r)
        s(v)
        return v

    def _decl_is_int(self, e):
        return False

    def lvalue_or_value(self, e):
        """(getter, setter) of an expression that denotes storage; for pointer dereference `u->...` the pointee"""
        try:
            return self.lvalue(e)
        except Unsupported:
            v = self.ev(e)
            return (lambda: v), (lambda nv: self._assign_into(v, nv))

    def lvalue(self, e):
        """returns (getter, setter)"""
        if getattr(e, 'line', 0):
            self.cur_line = e.line
        if isinstance(e, Id):
            c = self.lookup_cell(e.name)
            if c is not None:
                return (lambda: c.v), (lambda v: setattr(c, 'v', v))
            this = self.this_obj()
            if this is not None and e.name in this.f:
                return (lambda: this.f[e.name]), (lambda v: this.f.__setitem__(e.name, v))
            gv = self.file_var(strip_ns(e.name))
            if gv is not None:
                self.sym.effects.append(('global-write', strip_ns(e.name), self.cur_line))
                return (lambda: gv.v), (lambda v: setattr(gv, 'v', v))
            raise Unsupported('assignment to unknown name ' + e.name)
        if isinstance(e, Member):
            o = self.ev(e.e)
            if isinstance(o, (Cell, FieldCell)):
                o = o.v
            if isinstance(o, Obj):
                if e.name not in o.f:
                    raise Unsupported('no field %s in %s' % (e.name, o.cls))
                return (lambda: o.f[e.name]), (lambda v: o.f.__setitem__(e.name, v))
            raise Unsupported('member assignment on %r' % (o,))
        if isinstance(e, Call):
            # M(i,j) = v  or  M(i) = v ; also call returning reference to Obj field
            if isinstance(e.f, (Id, Member)):
                try:
                    target = self.ev(e.f)
                except Unsupported:
                    target = None
                if isinstance(target, Mat):
                    idx = [self.ev(a) for a in e.args]
                    idx = [self.concretize_index(i, (target.r if k_ == 0 else target.c) if len(idx) == 2 else target.r * target.c) for k_, i in enumerate(idx)]
                    i = idx[0]
                    j = idx[1] if len(idx) > 1 else None
                    return (lambda: target.get(i, j)), (lambda v: target.set(i, j, v))
            if isinstance(e.f, Member) and e.f.name in ('transpose', 'matrix', 'array') and not e.args:
                g0, s0 = self.lvalue_or_value(e.f.e)
                base = g0()
                if isinstance(base, (Cell, FieldCell)):
                    cellb = base
                    g0, s0 = (lambda: cellb.v), (lambda v: setattr(cellb, 'v', v))
                    base = cellb.v
                if isinstance(base, Mat):
                    nm = e.f.name
                    def getter():
                        b = g0()
                        return b.T() if nm == 'transpose' else Mat(b.r, b.c, b.d, 'matrix' if nm == 'matrix' else 'array', b.cplx)
                    def setter(nv):
                        b = g0()
                        nv2 = nv.T() if nm == 'transpose' else nv
                        if (nv2.r, nv2.c) != (b.r, b.c):
                            raise EvalError('size mismatch in assignment through %s()' % nm)
                        s0(Mat(b.r, b.c, [list(r) for r in nv2.d], b.kind, b.cplx or nv2.cplx))
                    return getter, setter
            v = self.ev(e)
            if isinstance(v, MatView):
                return (lambda: v), (lambda nv: v.write_back(nv))
            if isinstance(v, (Obj, Mat)):
                return (lambda: v), (lambda nv: self._assign_into(v, nv))
            raise Unsupported('call as lvalue')
        if isinstance(e, Index):
            arr = self.ev(e.e)
            i = self.ev(e.i)
            if isinstance(arr, (Cell, FieldCell)):
                # pointer indexing p[i]
                raise Unsupported('pointer indexing')
            if isinstance(arr, PyModel):
                return (lambda: arr.get_item(self, i)), (lambda v: arr.set_item(self, i, v))
            if isinstance(arr, Mat):
                return (lambda: arr.get(i)), (lambda v: arr.set(i, None, v))
            if isinstance(arr, (list, DataView)):
                if not isinstance(i, int):
                    raise Unsupported('symbolic array index')
                if not (0 <= i < len(arr)):
                    raise EvalError('array index %d out of bounds [0,%d)' % (i, len(arr)))
                return (lambda: arr[i]), (lambda v: arr.__setitem__(i, v))
            raise Unsupported('index on %r' % type(arr))
        if isinstance(e, Unary) and e.op == '*':
            c = self.ev(e.e)
            if isinstance(c, (Cell, FieldCell)):
                return (lambda: c.v), (lambda v: setattr(c, 'v', v))
            if isinstance(c, Obj):
                # *this = T(...): member-wise copy assignment into the object itself
                def put(v, c=c):
                    if not isinstance(v, Obj):
                        raise Unsupported('assignment of a non-object through *this')
                    for k_, v_ in v.f.items():
                        c.f[k_] = deep_copy(v_)
                self.fire('this-assignment')
                return (lambda: c), put
            if isinstance(c, tuple) and c and c[0] == 'vit':
                lst, i = c[1], c[2]
                return (lambda: lst[i]), (lambda v: lst.__setitem__(i, v))
            raise Unsupported('deref assignment')
        if getattr(e, 'paren', False):
            pass
        raise Unsupported('lvalue %s' % type(e).__name__)

    def _assign_into(self, target, nv):
        if isinstance(target, Mat) and isinstance(nv, Mat):
            target.d = [list(r) for r in nv.d]
        elif isinstance(target, Obj) and isinstance(nv, Obj):
            target.f = {k: deep_copy(v) for k, v in nv.f.items()}
        else:
            raise Unsupported('assign into')

    def ev_Index(self, e):
        arr = self.ev(e.e)
        i = self.ev(e.i)
        if isinstance(arr, PyModel):
            return arr.get_item(self, i)
        if isinstance(arr, Mat):
            return arr.get(i)
        if isinstance(arr, (list, tuple, str, DataView)):
            if not isinstance(i, int):
                raise Unsupported('symbolic array index')
            if not (0 <= i < len(arr)):
                raise EvalError('array index %d out of bounds [0,%d) at %s:%d' % (i, len(arr), self.cur_file(), self.cur_line))
            return arr[i]
        raise Unsupported('index on %r' % type(arr))

    def ev_Member(self, e):
        o = self.ev(e.e)
        if isinstance(o, (Cell, FieldCell)):
            o = o.v
        if isinstance(o, Obj):
            if e.name in o.f:
                return o.f[e.name]
            return BoundMethod(o, e.name)
        if isinstance(o, tuple) and e.name in ('first', 'second'):
            return o[0 if e.name == 'first' else 1]
        if isinstance(o, (Mat, Cx, str, Opaque, list, tuple, Stream, CommaInit, FormatObj, PyModel)):
            return BoundMethod(o, e.name)
        raise Unsupported('member %s of %r' % (e.name, o))

    # ---------------------------------------------------------------- calls
    def ev_Call(self, e):
        f = e.f
        line = e.line
        if isinstance(f, Member):
            o = self.ev(f.e)
            if isinstance(o, (Cell, FieldCell)):
                o = o.v
            args = [self.ev(a) for a in e.args]
            self.cur_line = line
            if isinstance(o, Obj) and f.name in o.f and isinstance(o.f[f.name], Mat):
                return self.call_value(o.f[f.name], args)
            return self.call_method(o, f.name, args, line, f.targs, e)
        if isinstance(f, Id):
            name = f.name
            s = strip_ns(name)
            # local callable (lambda / matrix variable being indexed)
            c = self.lookup_cell(name)
            if c is not None:
                args = [self.ev(a) for a in e.args]
                return self.call_value(c.v, args)
            this = self.this_obj()
            if this is not None and s in this.f and '::' not in s:
                v = this.f[s]
                if isinstance(v, (Mat, Closure)) or (callable(v) and not isinstance(v, (Obj,))):
                    args = [self.ev(a) for a in e.args]
                    return self.call_value(v, args)
            # stubs take precedence over everything else
            stub = self.stubs.get(s) or self.stubs.get(s.split('::')[-1])
            if stub is not None:
                args = [self.ev(a) for a in e.args]
                self.cur_line = line
                if getattr(stub, 'wants_cells', False):
                    # contract of a callee that writes through reference parameters
                    return stub(self, args, None, [self.try_lvalue_cell(a) if isinstance(a, (Id, Member)) else None for a in e.args])
                return stub(self, args, this if (this is not None and self.w.find_method(this.cls, s)) else None)
            b = self.builtin(s, f, e)
            if b is not NotImplemented:
                return b
            args = [self.ev(a) for a in e.args]
            if self.auto_stub is not None:
                r = self.auto_stub(self, s, args)
                if r is not NotImplemented:
                    self.fire('callee->ghost-value(auto)')
                    return r
            cells = [self.try_lvalue_cell(a) if isinstance(a, (Id, Member)) else None for a in e.args]
            self.cur_line = line
            # implicit this
            if this is not None and '::' not in s:
                ms = self.w.find_method(this.cls, s)
                if ms:
                    try:
                        fd = self.resolve_overload(ms, args, s)
                    except Unsupported:
                        fd = None      # a namespace-qualified free function of the same name (detail::f inside member f)
                    if fd is not None:
                        return self.invoke(fd, args, this, cells, targs=self.resolve_targs(f.targs))
            if this is not None and '::' in s:
                # Base::method(...)
                cls_part, last = s.rsplit('::', 1)
                if cls_part in self.w.classes and self.w.is_subclass(this.cls, cls_part):
                    ms = self.w.funcs.get(s, [])
                    if ms:
                        fd = self.resolve_overload(ms, args, s)
                        return self.invoke(fd, args, this, cells)
            fds = self.w.find(s)
            # free functions only (or static members)
            fds_free = [x for x in fds if x.cls is None or x.static]
            if not fds_free and '::' in s and s.rsplit('::', 1)[0] in self.w.classes:
                # Class::function(...) without an object: a static member function (declared static in the class definition only)
                fds_free = list(fds)
                self.fire('static-member-call')
            cur0 = self.frames[-1].file if self.frames else None
            fds_free = [x for x in fds_free if not (getattr(x, 'anon', False) and x.file != cur0 and x.file.endswith('.cpp'))]
            # prefer definitions from the current file (anonymous namespaces)
            if fds_free:
                cur = self.frames[-1].file if self.frames else None
                same = [x for x in fds_free if x.file == cur]
                pool = same if same else fds_free
                try:
                    fd = self.resolve_overload(pool, args, s)
                except Unsupported:
                    fd = self.resolve_overload(fds_free, args, s)
                return self.invoke(fd, args, None, cells, targs=self.resolve_targs(f.targs))
            if s in self.w.classes or s.split('::')[-1] in self.w.classes:
                return self.construct(Type(s if s in self.w.classes else s.split('::')[-1], None, False, False, 0), args, False)
            v = self.unknown_call(s, args)
            if v is not NotImplemented:
                return v
            raise Unsupported('call to unknown function %s at %s:%d' % (name, self.cur_file(), line))
        # call on arbitrary expression
        v = self.ev(f)
        args = [self.ev(a) for a in e.args]
        return self.call_value(v, args)

    def unknown_call(self, s, args):
        return NotImplemented

    def call_value(self, v, args):
        if isinstance(v, Mat):
            args = [self.concretize_index(i, (v.r if k_ == 0 else v.c) if len(args) == 2 else v.r * v.c) for k_, i in enumerate(args)]
            for k, i in enumerate(args):
                lim = (v.r if k == 0 else v.c) if len(args) == 2 else v.r * v.c
                if not (0 <= i < lim):
                    raise EvalError('matrix index out of range at %s:%d' % (self.cur_file(), self.cur_line))
            return v.get(*args)
        if isinstance(v, Closure):
            return self.call_closure(v, args)
        if isinstance(v, BoundMethod):
            return self.call_method(v.obj, v.name, args, self.cur_line)
        if isinstance(v, Obj):
            ms = self.w.find_method(v.cls, 'operator()')
            if ms:
                fd = self.resolve_overload(ms, args, 'operator()')
                return self.invoke(fd, args, v)
        if callable(v):
            return v(*args)
        raise Unsupported('call of %r' % (v,))

    def call_closure(self, cl, args):
        lam = cl.lam
        fr = Frame(cl.frame.fd, None, cl.frame.file)
        fr.closure_parent = cl.frame
        for p, a in zip(lam.params, args):
            fr.declare(p.name, Cell(a if (p.type.ref) else deep_copy(a)))
        self.frames.append(fr)
        try:
            try:
                self.exec_block(lam.body, new_scope=False)
                return None
            except ReturnSig as r:
                return r.v
        finally:
            self.frames.pop()

    def call_method(self, o, name, args, line=0, targs=None, node=None):
        if isinstance(o, Obj):
            key1 = o.cls + '::' + name
            stub = self.stubs.get(key1)
            if stub is None:
                for b in self.w.bases(o.cls):
                    stub = self.stubs.get(b + '::' + name)
                    if stub is not None:
                        break
            if stub is None:
                stub = self.stubs.get('::' + name)
            if stub is not None:
                return stub(self, args, o)
            ms = self.w.find_method(o.cls, name)
            if ms:
                fd = self.resolve_overload(ms, args, name)
                cells = None
                if node is not None:
                    cells = [self.try_lvalue_cell(a) if isinstance(a, (Id, Member)) else None for a in node.args]
                return self.invoke(fd, args, o, cells)
            if name in o.f:
                return self.call_value(o.f[name], args)
            if o.cls.endswith('Error') or name == 'what':
                if name == 'what':
                    return o.f.get('msg', '')
            raise Unsupported('method %s::%s not found' % (o.cls, name))
        if isinstance(o, FormatObj):
            if name == 'str':
                return o.result()
            raise Unsupported('format.' + name)
        if isinstance(o, PyModel):
            f = getattr(o, 'm_' + name.replace('operator[]', 'index'), None)
            if f is None:
                raise Unsupported('modelled object %s has no method %s' % (type(o).__name__, name))
            return f(self, *args)
        if isinstance(o, CommaInit):
            if name == 'finished':
                return o.finish()
            raise Unsupported('CommaInit.' + name)
        if isinstance(o, PermMat):
            if name == 'setIdentity':
                o.idx.d = [[i] for i in range(o.n)]
                return o
            if name == 'indices':
                return o.idx
            if name == 'size' or name == 'rows' or name == 'cols':
                return o.n
            raise Unsupported('PermutationMatrix.' + name)
        if isinstance(o, tuple) and len(o) == 2 and o[0] == 'rowwise':
            if name == 'reverse':
                m_ = o[1]
                return Mat(m_.r, m_.c, [list(reversed(row)) for row in m_.d], m_.kind, m_.cplx)
            raise Unsupported('rowwise().' + name)
        if isinstance(o, Mat):
            return self.mat_method(o, name, args, targs)
        if isinstance(o, Cx):
            if name == 'real':
                return o.re
            if name == 'imag':
                return o.im
        if isinstance(o, str):
            if name in ('size', 'length'):
                return len(o)
            if name == 'empty':
                return len(o) == 0
            if name == 'c_str':
                return o
            if name == 'copy':
                raise Unsupported('std::string::copy')
        if isinstance(o, Opaque):
            self.sym.effects.append(('opaque-call:' + o.what, name, self.cur_line))
            return Opaque(o.what + '.' + name)
        if isinstance(o, Stream):
            if name == 'str':
                return o
            if name in ('precision', 'width', 'setf', 'flags'):
                return 0
        if isinstance(o, list):
            if name == 'push_back' or name == 'emplace_back':
                o.append(deep_copy(args[0])); return None
            if name == 'clear':
                del o[:]; return None
            if name == 'empty':
                return len(o) == 0
            if name in ('begin', 'cbegin'):
                return ('vit', o, 0)
            if name in ('end', 'cend'):
                return ('vit', o, len(o))
            if name == 'erase':
                a, b = args[0], (args[1] if len(args) > 1 else ('vit', o, args[0][2] + 1))
                del o[a[2]:b[2]]
                return ('vit', o, a[2])
            if name == 'back':
                return o[-1]
            if name == 'front':
                return o[0]
            if name in ('insert', 'emplace') and len(args) == 2 and isinstance(args[0], tuple) and args[0][0] == 'vit':
                o.insert(args[0][2], deep_copy(args[1]))
                return ('vit', o, args[0][2])
        if isinstance(o, (list, tuple)):
            if name == 'size':
                return len(o)
        raise Unsupported('method %s on %r at %s:%d' % (name, type(o).__name__, self.cur_file(), line))

    # ---------------------------------------------------------------- Eigen
    def mat_method(self, m, name, args, targs=None):
        z = 0.0 if self.mode == 'float' else 0
        if name in ('transpose',):
            return m.T()
        if name == 'adjoint':
            return m.T().map(self.conj) if m.cplx else m.T()
        if name == 'conjugate':
            return m.map(self.conj) if m.cplx else m.copy()
        if name == 'real':
            return m.map(lambda x: x.re if isinstance(x, Cx) else x, cplx=False)
        if name == 'imag':
            return m.map(lambda x: x.im if isinstance(x, Cx) else z, cplx=False)
        if name == 'asDiagonal':
            n = max(m.r, m.c)
            v = m.elems()
            zero = Cx(z, z) if m.cplx else z
            return Mat(n, n, [[v[i] if i == j else zero for j in range(n)] for i in range(n)], 'matrix', m.cplx)
        if name == 'diagonal':
            n = min(m.r, m.c)
            return Mat(n, 1, [[m.d[i][i]] for i in range(n)], m.kind, m.cplx)
        if name == 'col':
            return MatView(m, 'col', args[0])
        if name == 'row':
            return MatView(m, 'row', args[0])
        if name == 'swap' and isinstance(m, MatView) and isinstance(args[0], MatView):
            m.swap(args[0])
            return None
        if name == 'cwiseAbs' or name == 'abs':
            return m.map(self.m_abs, cplx=False)
        if name == 'cwiseAbs2' or name == 'abs2':
            return m.map(lambda x: add(mul(x.re, x.re), mul(x.im, x.im)) if isinstance(x, Cx) else mul(x, x), cplx=False)
        if name == 'square':
            return m.map(lambda x: mul(x, x))
        if name == 'cwiseSqrt' or name == 'sqrt':
            return m.map(self.m_sqrt)
        if name in ('log', 'exp'):
            if any(isinstance(x, Dim) for x in m.elems()):
                return m.map(lambda x: self.m_unary_uf('ln' if name == 'log' else 'exp', None, x))
            if self.mode == 'float':
                f = (lambda x: (math.log(x) if x > 0 else (-math.inf if x == 0 else math.nan))) if name == 'log' else math.exp
                return m.map(lambda x: f(float(x)))
            return m.map(lambda x: self.m_unary_uf('ln' if name == 'log' else 'exp', None, x, domain=(lambda t: t > 0) if name == 'log' else None))
        if name == 'pow':
            return m.map(lambda x: self.m_pow(x, args[0]))
        if name == 'cwiseInverse' or name == 'inverse' and m.kind == 'array':
            return m.map(lambda x: div(1, x))
        if name == 'cwiseProduct':
            return mat_binop(mul, m, args[0])
        if name == 'cwiseQuotient':
            return mat_binop(div, m, args[0])
        if name == 'array':
            return Mat(m.r, m.c, m.d, 'array', m.cplx)
        if name == 'matrix':
            return Mat(m.r, m.c, m.d, 'matrix', m.cplx)
        if name == 'eval':
            return m.copy()
        if name == 'setZero':
            zero = Cx(z, z) if m.cplx else z
            m.d = [[zero for _ in range(m.c)] for _ in range(m.r)]
            return m
        if name == 'setIdentity':
            zero = Cx(z, z) if m.cplx else z
            one = Cx(z + 1, z) if m.cplx else z + 1
            m.d = [[one if i == j else zero for j in range(m.c)] for i in range(m.r)]
            return m
        if name == 'setConstant' or name == 'fill':
            m.d = [[args[0] for _ in range(m.c)] for _ in range(m.r)]
            return m
        if name in ('rows',):
            return m.r
        if name in ('cols',):
            return m.c
        if name == 'size':
            return m.r * m.c
        if name == 'sum':
            s = None
            for x in m.elems():
                s = x if s is None else add(s, x)
            return s
        if name == 'prod':
            s = None
            for x in m.elems():
                s = x if s is None else mul(s, x)
            return s
        if name == 'trace':
            s = None
            for i in range(min(m.r, m.c)):
                s = m.d[i][i] if s is None else add(s, m.d[i][i])
            return s
        if name == 'dot':
            o = args[0]
            s = None
            for x, y in zip(m.elems(), o.elems()):
                t = mul(self.conj(x) if isinstance(x, Cx) else x, y)
                s = t if s is None else add(s, t)
            return s
        if name == 'squaredNorm':
            s = None
            for x in m.elems():
                t = add(mul(x.re, x.re), mul(x.im, x.im)) if isinstance(x, Cx) else mul(x, x)
                s = t if s is None else add(s, t)
            return s
        if name == 'norm':
            return self.m_sqrt(self.mat_method(m, 'squaredNorm', []))
        if name in ('minCoeff', 'maxCoeff'):
            xs = m.elems()
            if args:
                # minCoeff(&pos): the index is control-flow relevant -> explore both outcomes of each comparison
                cell = args[0]
                bi = 0
                for i in range(1, len(xs)):
                    c = cmp('<', xs[i], xs[bi]) if name == 'minCoeff' else cmp('>', xs[i], xs[bi])
                    if self.decide(c):
                        bi = i
                if isinstance(cell, (Cell, FieldCell)):
                    cell.v = bi
                else:
                    raise Unsupported('minCoeff(&pos) target')
                return xs[bi]
            best = xs[0]
            for x in xs[1:]:
                if name == 'minCoeff':
                    c = cmp('<', x, best)
                else:
                    c = cmp('>', x, best)
                best = ite(c, x, best)
            return best
        if name == 'allFinite':
            if self.mode == 'float':
                return all(math.isfinite(x) for x in m.elems())
            if self.nonfinite_unknown:
                return self.decide(UnknownBool())
            return True
        if name == 'hasNaN':
            if self.mode == 'float':
                return any(x != x for x in m.elems())
            if self.nonfinite_unknown:
                return self.decide(UnknownBool())
            return False
        if name == 'determinant':
            d = m.d
            if m.r == 2:
                return sub(mul(d[0][0], d[1][1]), mul(d[0][1], d[1][0]))
            if m.r == 3:
                return add(sub(mul(d[0][0], sub(mul(d[1][1], d[2][2]), mul(d[1][2], d[2][1]))),
                               mul(d[0][1], sub(mul(d[1][0], d[2][2]), mul(d[1][2], d[2][0])))),
                           mul(d[0][2], sub(mul(d[1][0], d[2][1]), mul(d[1][1], d[2][0]))))
        if name == 'cast':
            ty = targs[0] if targs else None
            if ty is not None and self.type_is_complex(ty):
                return m.map(lambda x: x if isinstance(x, Cx) else Cx(x, z), cplx=True)
            return m.copy()
        if name == 'reverse' or name == 'reverseInPlace':
            xs = m.elems()[::-1]
            r = Mat(m.r, m.c, [xs[i * m.c:(i + 1) * m.c] for i in range(m.r)], m.kind, m.cplx)
            if name == 'reverseInPlace':
                m.d = r.d
                if isinstance(m, SegView):
                    m.write_back()
                return m
            return r
        if name == 'data':
            return DataView(m)
        if name == 'segment':
            k = self.const_int(targs[0]) if targs else args[1]
            return SegView(m, args[0], k)
        if name in ('head', 'tail'):
            # v.head<K>() / v.head(k): the first K elements of a vector (tail: the last K) as a view
            k = self.const_int(targs[0]) if targs else args[0]
            n_el = m.r * m.c
            self.fire('eigen-head-tail')
            return SegView(m, 0 if name == 'head' else n_el - k, k)
        if name == 'transposeInPlace':
            t = m.T()
            m.r, m.c, m.d = t.r, t.c, t.d
            return m
        if name == 'adjointInPlace':
            t = m.T().map(self.conj) if m.cplx else m.T()
            m.r, m.c, m.d = t.r, t.c, t.d
            return m
        if name == 'rowwise':
            return ('rowwise', m)
        if name == 'unaryExpr':
            fobj = args[0]
            r = m.map(lambda x: self.call_value(fobj, [x]), cplx=None)
            r.cplx = any(isinstance(x, Cx) for x in r.elems())
            return r
        raise Unsupported('Eigen method %s' % name)

    def conj(self, x):
        if isinstance(x, Cx):
            return Cx(x.re, neg(x.im))
        return x

    # ---------------------------------------------------------------- builtins
    def builtin(self, s, f, e):
        """library functions with exact meaning; returns NotImplemented if s is not one"""
        B = self
        def A():
            return [B.ev(a) for a in e.args]
        if s.startswith('Eigen::Matrix<>::') or s.startswith('Eigen::Array<>::'):
            what = s.split('::')[-1]
            ty = Type(s.split('<>')[0], f.targs, False, False, 0)
            m = self.zero_of_type(ty)
            if what == 'Zero':
                return m
            if what == 'Identity':
                return self.mat_method(m, 'setIdentity', [])
            if what == 'Constant':
                return self.mat_method(m, 'setConstant', A())
            if what == 'Ones':
                return self.mat_method(m, 'setConstant', [1.0 if self.mode == 'float' else 1])
            raise Unsupported(s)
        if s.startswith('std::numeric_limits') and f.targs and isinstance(f.targs[0], Type) and strip_ns(f.targs[0].name) in ('int', 'unsigned', 'long', 'unsigned int'):
            what = s.split('::')[-1]
            tn = strip_ns(f.targs[0].name)
            lo, hi = {'int': (-2**31, 2**31 - 1), 'unsigned': (0, 2**32 - 1), 'unsigned int': (0, 2**32 - 1), 'long': (-2**63, 2**63 - 1)}[tn]
            if what in ('min', 'lowest'):
                return lo
            if what == 'max':
                return hi
            raise Unsupported(s)
        if s.startswith('std::numeric_limits'):
            what = s.split('::')[-1]
            if what == 'epsilon':
                return 2.0 ** -52 if self.mode == 'float' else Fraction(1, 2 ** 52)
            if what == 'quiet_NaN':
                if self.mode == 'float':
                    return math.nan
                raise Unsupported('NaN in real-arithmetic back end (decided by back end A)')
            if what == 'max':
                return 1.7976931348623157e308 if self.mode == 'float' else Fraction(1.7976931348623157e308)
            if what == 'min':
                return 2.2250738585072014e-308 if self.mode == 'float' else Fraction(2.2250738585072014e-308)
            if what == 'infinity':
                if self.mode == 'float':
                    return math.inf
                raise Unsupported('infinity in real-arithmetic back end')
            if what == 'digits10':
                return 15
            if what == 'max_digits10':
                return 17
            raise Unsupported(s)
        if s in ('std::abs', 'std::fabs', 'fabs', 'abs'):
            a = A()
            if len(a) == 1 and not isinstance(a[0], Obj):
                return self.m_abs(a[0])
            return NotImplemented
        if s in ('std::copysign', 'copysign'):
            a = A()
            if self.mode == 'float':
                return math.copysign(float(a[0]), float(a[1]))
            # |a| with the sign of b (over the reals: the sign of a zero b counts as +)
            mag = self.m_abs(a[0])
            if not is_sym(a[1]):
                return mag if Fraction(a[1]) >= 0 else neg(mag)
            return ite(cmp('>=', a[1], 0), mag, neg(mag))
        if s in ('std::sqrt', 'sqrt'):
            a = A()
            if isinstance(a[0], Cx):
                return self.m_complex('sqrt', a[0])
            return self.m_sqrt(a[0])
        if s in ('std::log', 'log'):
            a = A()
            if isinstance(a[0], Cx):
                return self.m_complex('log', a[0])
            if isinstance(a[0], Dim):
                return self.m_unary_uf('ln', None, a[0])
            if isinstance(a[0], fpset.FP):
                return fpset.log(a[0])
            if self.mode == 'float':
                x = float(a[0])
                return math.log(x) if x > 0 else (-math.inf if x == 0 else math.nan)
            if not is_sym(a[0]) and Fraction(a[0]) == 1:
                return 0
            return self.m_unary_uf('ln', math.log, a[0], domain=lambda t: t > 0)
        if s in ('std::log1p',):
            a = A()
            if isinstance(a[0], Dim):
                return self.m_unary_uf('ln', None, a[0])
            if isinstance(a[0], fpset.FP):
                return fpset.log1p(a[0])
            if self.mode == 'float':
                x = float(a[0])
                return math.log1p(x) if x > -1 else (-math.inf if x == -1 else math.nan)
            return self.m_unary_uf('ln', math.log, add(1, a[0]), domain=lambda t: t > 0)
        if s in ('std::exp', 'exp'):
            a = A()
            return self.m_unary_uf('exp', math.exp, a[0])
        if s in ('std::sin', 'std::cos', 'std::tan', 'std::asin', 'std::acos', 'std::atan', 'sin', 'cos', 'tan', 'asin', 'acos', 'atan'):
            a = A()
            nm = s.split('::')[-1]
            if nm == 'tan' and self.mode == 'sym':
                return div(self.m_unary_uf('sin', math.sin, a[0]), self.m_unary_uf('cos', math.cos, a[0]))
            dom = None
            if nm in ('asin', 'acos'):
                dom = lambda t: z3.And(t >= -1, t <= 1)
            return self.m_unary_uf(nm, getattr(math, nm), a[0], domain=dom)
        if s in ('std::atan2',):
            a = A()
            if isinstance(a[0], fpset.FP) or isinstance(a[1], fpset.FP):
                return fpset.atan2(a[0], a[1])
            if self.mode == 'float':
                return math.atan2(float(a[0]), float(a[1]))
            y, x = z3real(a[0]), z3real(a[1])
            r = self.uf('atan2', y, x)
            sn, cs = self.uf('sin', r), self.uf('cos', r)
            h = self.uf('sqrt', z3.simplify(x * x + y * y))
            self.axiom(z3.And(h >= 0, h * h == x * x + y * y, h * sn == y, h * cs == x, sn * sn + cs * cs == 1), ('atan2', r.get_id()))
            return r
        if s in ('std::pow', 'pow'):
            a = A()
            return self.m_pow(a[0], a[1])
        if s in ('std::modf',):
            a = A()
            tgt = a[1]
            if self.mode == 'float':
                fr_, ip = math.modf(float(a[0]))
                tgt.v = ip
                return fr_
            x = z3real(a[0])
            ip = z3.ToReal(z3.ToInt(x))          # contract used: modf(x,&ip) == 0  <=>  x is integral  (ip = floor x here)
            self.fire('modf-contract')
            tgt.v = ip
            return x - ip
        if s in ('std::fmod',):
            a = A()
            if isinstance(a[0], fpset.FP) or isinstance(a[1], fpset.FP):
                return fpset.fmod(a[0], a[1])
            if self.mode == 'float':
                return math.fmod(float(a[0]), float(a[1]))
            return self.uf('fmod', a[0], a[1])
        if s in ('std::max', 'std::min', 'std::fmax', 'std::fmin'):
            a = A()
            if len(a) == 1 and isinstance(a[0], list) and a[0]:
                # std::min({a, b, c}): fold
                acc = a[0][0]
                for x_ in a[0][1:]:
                    if isinstance(acc, fpset.FP) or isinstance(x_, fpset.FP):
                        acc = fpset.fmaxmin(acc, x_, 'max' in s)
                    else:
                        c_ = cmp('<', acc, x_) if 'max' in s else cmp('<', x_, acc)
                        acc = ite(c_, x_, acc)
                self.fire('std::min/max-of-initializer-list')
                return acc
            if len(a) != 2:
                raise Unsupported(s)
            if isinstance(a[0], list):
                raise Unsupported(s)
            if isinstance(a[0], fpset.FP) or isinstance(a[1], fpset.FP):
                return fpset.fmaxmin(a[0], a[1], 'max' in s)
            gt = cmp('<', a[0], a[1]) if 'max' in s else cmp('<', a[1], a[0])
            # std::max(a,b) = (a<b)?b:a ; std::min(a,b) = (b<a)?b:a
            return ite(gt, a[1], a[0])
        if s in ('std::swap',):
            g0, s0 = self.lvalue(e.args[0])
            g1, s1 = self.lvalue(e.args[1])
            t0, t1 = g0(), g1()
            s0(t1); s1(t0)
            return None
        if s in ('std::make_tuple', 'std::make_pair', 'std::tie', 'std::forward_as_tuple'):
            return tuple(A())
        if s == 'std::get':
            a = A()
            k = self.const_int(f.targs[0])
            return a[0][k]
        if s in ('std::toupper', 'std::tolower', 'toupper', 'tolower'):
            a = A()
            c = a[0]
            if isinstance(c, str) and len(c) == 1:
                self.fire('char-case')
                return c.upper() if s.endswith('upper') else c.lower()
            raise Unsupported('%s of a non-constant character' % s)
        if s in ('std::isfinite', 'std::isnan', 'std::isinf', 'isfinite', 'isnan', 'isinf'):
            a = A()
            nm = s.split('::')[-1]
            if isinstance(a[0], Dim):
                return nm == 'isfinite'
            if isinstance(a[0], fpset.FP):
                if nm == 'isfinite':
                    return fpset.isfinite(a[0])
                raise Unsupported(nm + ' of a floating-point set')
            if self.mode == 'float':
                x = a[0]
                return {'isfinite': math.isfinite, 'isnan': math.isnan, 'isinf': math.isinf}[nm](float(x))
            self.fire('real-' + nm)
            if self.nonfinite_unknown and self.mode == 'sym':
                # the real-arithmetic abstraction has no NaN/Inf: explore both outcomes of the finiteness test
                return self.decide(UnknownBool())
            return nm == 'isfinite'
        if s in ('std::real', 'std::imag', 'std::conj', 'std::norm', 'std::arg', 'std::polar', 'Re', 'Im', 'Conj'):
            a = A()
            nm = s.split('::')[-1].lower()
            z = cx(a[0]) if nm != 'polar' else None
            zero = 0.0 if self.mode == 'float' else 0
            if nm in ('real', 're'):
                if isinstance(a[0], Mat):
                    return self.mat_method(a[0], 'real', [])
                return z.re
            if nm in ('imag', 'im'):
                return z.im
            if nm == 'conj':
                if isinstance(a[0], Mat):
                    return self.mat_method(a[0], 'conjugate', [])
                return Cx(z.re, neg(z.im))
            if nm == 'norm':
                return add(mul(z.re, z.re), mul(z.im, z.im))
            if nm == 'arg':
                if self.mode == 'float':
                    return math.atan2(z.im, z.re)
                if not is_sym(z.im) and z.im == 0:
                    # arg of a real number: 0 or pi
                    return ite(cmp('<', z.re, 0), self.named_const('PI', 'pi', Fraction(1)), 0)
                return self.uf('atan2', z.im, z.re)
            if nm == 'polar':
                r, th = a[0], a[1]
                if self.mode == 'float':
                    return Cx(r * math.cos(th), r * math.sin(th))
                return Cx(mul(r, self.m_unary_uf('cos', math.cos, th)), mul(r, self.m_unary_uf('sin', math.sin, th)))
        if s in ('std::to_string',):
            a = A()
            return str(a[0])
        if s in ('std::string',):
            a = A()
            return ''.join(str(x) for x in a)
        if s == 'make_raii_save':
            g, st = self.lvalue(e.args[0])
            saved = deep_copy(g())
            self.fire('raii-save')
            fr = self.frames[-1]
            fr.exit_hooks[-1].append(lambda: st(saved))
            return Opaque('raii')
        if s == '__delete':
            A()
            return None
        if s in ('std::move', 'std::forward', 'std::ref', 'std::cref'):
            return A()[0]
        if s in ('std::lower_bound', 'std::upper_bound', 'std::find', 'std::binary_search') :
            a = A()
            if len(a) == 3 and isinstance(a[0], tuple) and a[0][0] == 'vit' and all(not is_sym(x) for x in a[0][1]) and not is_sym(a[2]):
                import bisect
                lst, i0, i1 = a[0][1], a[0][2], a[1][2]
                seg = lst[i0:i1]
                self.fire('std-algorithm-on-concrete-vector')
                if s == 'std::lower_bound':
                    return ('vit', lst, i0 + bisect.bisect_left(seg, a[2]))
                if s == 'std::upper_bound':
                    return ('vit', lst, i0 + bisect.bisect_right(seg, a[2]))
                if s == 'std::find':
                    return ('vit', lst, i0 + (seg.index(a[2]) if a[2] in seg else len(seg)))
                k_ = bisect.bisect_left(seg, a[2])
                return k_ < len(seg) and seg[k_] == a[2]
            raise Unsupported('%s on a symbolic range' % s)
        if s in ('std::sort', 'std::unique'):
            a = A()
            if len(a) >= 2 and isinstance(a[0], tuple) and a[0][0] == 'vit' and all(not is_sym(x) for x in a[0][1]):
                lst, i0, i1 = a[0][1], a[0][2], a[1][2]
                seg = lst[i0:i1]
                if s == 'std::sort':
                    if len(a) > 2:
                        raise Unsupported('std::sort with comparator')
                    lst[i0:i1] = sorted(seg)
                    return None
                out = []
                for x in seg:
                    if not out or out[-1] != x:
                        out.append(x)
                lst[i0:i1] = out + seg[len(out):]
                return ('vit', lst, i0 + len(out))
            from .values import DataView as _DV, DataPtr as _DP, ite as _ite, cmp as _cmp
            if s == 'std::sort' and len(a) == 3 and isinstance(a[0], _DV) and isinstance(a[1], _DP) and a[1].view.m is a[0].m and a[1].off == len(a[0]) <= 4:
                # small range with a comparator: insertion sort, every comparison is a branch decision (all orderings are explored)
                n_ = len(a[0])
                xs = [a[0][i] for i in range(n_)]
                out = []
                for x in xs:
                    pos = len(out)
                    for k_ in range(len(out)):
                        c = self.call_value(a[2], [x, out[k_]])
                        if self.decide(c) if is_sym(c) else bool(c):
                            pos = k_
                            break
                    out.insert(pos, x)
                for i in range(n_):
                    a[0][i] = out[i]
                self.fire('std::sort(<=4 elements, comparator)->insertion sort with decisions')
                return None
            if s == 'std::sort' and len(a) == 2 and isinstance(a[0], _DV) and isinstance(a[1], _DP) and a[1].view.m is a[0].m and a[1].off == len(a[0]) == 2:
                # two-element range: (min, max)
                x, y = a[0][0], a[0][1]
                if not is_sym(x) and not is_sym(y):
                    a[0][0], a[0][1] = min(x, y), max(x, y)
                else:
                    c = z3real(x) <= z3real(y)
                    a[0][0], a[0][1] = z3.If(c, z3real(x), z3real(y)), z3.If(c, z3real(y), z3real(x))
                self.fire('std::sort(2 elements)->min/max')
                return None
            raise Unsupported(s + ' on symbolic data')
        if s in ('std::ostringstream', 'std::stringstream'):
            return Stream()
        if s in ('boost::lexical_cast', 'lexical_cast'):
            return str(A()[0])[:40]
        if s == 'boost::format':
            return FormatObj(A()[0])
        if s in ('std::setprecision', 'std::setw', 'std::setfill'):
            a = A()
            return Opaque('%s(%s)' % (s, a[0]))
        return NotImplemented

class FormatObj:
    """boost::format(fmt) % a % b ... : the formatted text is represented by (fmt, args)"""
    def __init__(self, fmt):
        self.fmt, self.args = fmt, []
    def result(self):
        return ('format', self.fmt, tuple(self.args))

class PyModel:
    """library object modelled by an assumed contract written in Python (e.g. SLHAea containers as ghost maps).
    method calls dispatch to m_<name>(interp, *args); indexing to get_item/set_item"""
    pass

class CommaInit:
    def __init__(self, m):
        self.m, self.k = m, 0
    def push(self, v):
        vals = v.elems() if isinstance(v, Mat) else [v]
        for x in vals:
            if self.k >= self.m.r * self.m.c:
                raise EvalError('too many coefficients in comma initialiser')
            self.m.set(self.k // self.m.c, self.k % self.m.c, x)
            self.k += 1
    def finish(self):
        if self.k != self.m.r * self.m.c:
            raise EvalError('too few coefficients in comma initialiser')
        return self.m

class FieldCell:
    """reference to an object field"""
    def __init__(self, obj, name):
        self.obj, self.name = obj, name
    @property
    def v(self):
        return self.obj.f[self.name]
    @v.setter
    def v(self, x):
        self.obj.f[self.name] = x

class Stream:
    def __init__(self):
        self.items = []
    def __repr__(self):
        return 'Stream(%r)' % (self.items,)
