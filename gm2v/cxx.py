"""Lexer + parser for the numeric C++ subset GM2Calc is written in.

Everything is read from /repo's *current* working tree on every run.
A construct outside the subset raises ParseError (the driver turns that into
exit status 2 "extraction", never into a violation).
"""
import re, os

class ParseError(Exception):
    pass

# --------------------------------------------------------------------------
# lexer
# --------------------------------------------------------------------------
TOKEN_RE = re.compile(r'''
   (?P<ws>\s+)
 | (?P<lcomment>//[^\n]*)
 | (?P<bcomment>/\*.*?\*/)
 | (?P<num>(?:0[xX][0-9a-fA-F]+[uUlL]*)|(?:(?:\d+\.\d*|\.\d+|\d+)(?:[eE][+-]?\d+)?[fFlLuU]*))
 | (?P<id>[A-Za-z_]\w*)
 | (?P<str>"(?:\\.|[^"\\])*")
 | (?P<chr>'(?:\\.|[^'\\])*')
 | (?P<op>->\*|<<=|>>=|\.\.\.|::|->|\+\+|--|<<|>>|<=|>=|==|!=|&&|\|\||\+=|-=|\*=|/=|%=|&=|\|=|\^=|[-+*/%<>=!&|^~?:;,.(){}\[\]\#])
''', re.S | re.X)

class Tok:
    __slots__ = ('k', 'v', 'pos', 'line')
    def __init__(self, k, v, pos, line):
        self.k, self.v, self.pos, self.line = k, v, pos, line
    def __repr__(self):
        return '%s:%r@%d' % (self.k, self.v, self.line)

def strip_preprocessor(text):
    """Remove preprocessor lines (keeping line structure); return (text, defines).
    defines: name -> (params or None, body text)"""
    out = []
    defines = {}
    lines = text.split('\n')
    # conditional compilation: only conditions whose value is known for this build are decided (EIGEN_VERSION_AT_LEAST -> true with the installed
    # Eigen 3.4; __cplusplus defined and > 199711L; ENABLE_DEBUG not defined); for any other condition both branches are kept, as before
    def cond_value(directive, rest):
        rest = rest.strip()
        if directive in ('ifdef', 'ifndef'):
            name = rest.split()[0] if rest.split() else ''
            known = {'__cplusplus': True, 'ENABLE_DEBUG': False}
            if name in known:
                return known[name] if directive == 'ifdef' else (not known[name])
            return None
        if directive == 'if':
            if rest.startswith('EIGEN_VERSION_AT_LEAST'):
                return True
            if re.match(r'__cplusplus\s*<=\s*199711L', rest):
                return False
            return None
        return None
    stack = []          # entries: [decided(bool), currently_active(bool), any_taken(bool)]
    i = 0
    while i < len(lines):
        ln = lines[i]
        st = ln.lstrip()
        mdir = re.match(r'#\s*(ifdef|ifndef|if|elif|else|endif)\b(.*)$', st)
        if mdir:
            d, rest = mdir.group(1), mdir.group(2)
            if d in ('if', 'ifdef', 'ifndef'):
                v = cond_value(d, rest)
                stack.append([v is not None, True if v is None else v, bool(v)])
            elif d == 'elif' and stack:
                e = stack[-1]
                if e[0]:
                    e[1] = False if e[2] else True      # value of an #elif after a decided #if is not evaluated: treat as taken iff nothing was
                    e[2] = e[2] or e[1]
            elif d == 'else' and stack:
                e = stack[-1]
                if e[0]:
                    e[1] = not e[2]
                    e[2] = True
            elif d == 'endif' and stack:
                stack.pop()
            out.append('')
            i += 1
            continue
        if any(e[0] and not e[1] for e in stack):
            out.append('')
            i += 1
            continue
        if ln.lstrip().startswith('#'):
            full = ln
            n = 1
            while full.rstrip().endswith('\\') and i + n < len(lines):
                full = full.rstrip()[:-1] + ' ' + lines[i + n]
                n += 1
            m = re.match(r'\s*#\s*define\s+(\w+)(\(([^)]*)\))?\s*(.*)$', full, re.S)
            if m:
                name = m.group(1)
                params = None
                if m.group(2) is not None and full[m.end(1):m.end(1) + 1] == '(':
                    params = [p.strip() for p in m.group(3).split(',') if p.strip()]
                defines[name] = (params, m.group(4).strip())
            out.extend([''] * n)
            i += n
        else:
            out.append(ln)
            i += 1
    return '\n'.join(out), defines

def lex(text):
    toks = []
    pos = 0
    line = 1
    n = len(text)
    while pos < n:
        m = TOKEN_RE.match(text, pos)
        if not m:
            raise ParseError('lex error at line %d: %r' % (line, text[pos:pos + 20]))
        k = m.lastgroup
        v = m.group(k)
        if k not in ('ws', 'lcomment', 'bcomment'):
            toks.append(Tok(k, v, pos, line))
        line += v.count('\n')
        pos = m.end()
    toks.append(Tok('eof', '', pos, line))
    return toks

# --------------------------------------------------------------------------
# macro expansion (token level; object- and function-like, ## supported)
# --------------------------------------------------------------------------
LOG_MACROS = {'ERROR', 'WARNING', 'VERBOSE', 'DEBUG', 'INFO'}

def expand_macros(toks, defines, counts=None):
    """Expand file-local macros. The logging macros are NOT expanded (they become
    diagnostic effects in the parser)."""
    if not defines:
        return toks
    out = []
    i = 0
    guard = 0
    toks = list(toks)
    while i < len(toks):
        t = toks[i]
        if t.k == 'id' and t.v in defines and t.v not in LOG_MACROS:
            params, body = defines[t.v]
            if params is None:
                rep = lex(body)[:-1]
                for r in rep:
                    r.line = t.line
                toks[i:i + 1] = rep
                if counts is not None:
                    counts[t.v] = counts.get(t.v, 0) + 1
                guard += 1
                if guard > 100000:
                    raise ParseError('macro recursion')
                continue
            elif i + 1 < len(toks) and toks[i + 1].v == '(':
                # collect args
                j = i + 2
                depth = 0
                args = [[]]
                while True:
                    tj = toks[j]
                    if tj.k == 'eof':
                        raise ParseError('unterminated macro call %s' % t.v)
                    if tj.v in '([{' and tj.k == 'op':
                        depth += 1
                    elif tj.v in ')]}' and tj.k == 'op':
                        if depth == 0:
                            break
                        depth -= 1
                    if tj.v == ',' and depth == 0:
                        args.append([])
                    else:
                        args[-1].append(tj)
                    j += 1
                if len(params) == 0 and args == [[]]:
                    args = []
                if len(args) != len(params):
                    raise ParseError('macro %s: arity' % t.v)
                amap = dict(zip(params, args))
                btoks = lex(body)[:-1]
                rep = []
                k = 0
                while k < len(btoks):
                    b = btoks[k]
                    if k + 2 < len(btoks) + 0 and k + 1 < len(btoks) and btoks[k + 1].v == '#' and k + 2 < len(btoks) and btoks[k + 2].v == '#':
                        # a ## b
                        left = ''.join(x.v for x in amap[b.v]) if b.v in amap else b.v
                        rt = btoks[k + 3]
                        right = ''.join(x.v for x in amap[rt.v]) if rt.v in amap else rt.v
                        rep.extend(lex(left + right)[:-1])
                        k += 4
                        continue
                    if b.v == '#' and k + 1 < len(btoks) and btoks[k + 1].v in amap:
                        s = ' '.join(x.v for x in amap[btoks[k + 1].v])
                        rep.append(Tok('str', '"' + s.replace('"', '\\"') + '"', b.pos, t.line))
                        k += 2
                        continue
                    if b.k == 'id' and b.v in amap:
                        rep.extend(Tok(x.k, x.v, x.pos, x.line) for x in amap[b.v])
                    else:
                        rep.append(Tok(b.k, b.v, b.pos, t.line))
                    k += 1
                toks[i:j + 1] = rep
                if counts is not None:
                    counts[t.v] = counts.get(t.v, 0) + 1
                guard += 1
                if guard > 100000:
                    raise ParseError('macro recursion')
                continue
        out.append(t)
        i += 1
    return out

# --------------------------------------------------------------------------
# AST
# --------------------------------------------------------------------------
class Node:
    _fields = ()
    def __init__(self, *a, **kw):
        for f, v in zip(self._fields, a):
            setattr(self, f, v)
        for f in self._fields[len(a):]:
            setattr(self, f, kw.pop(f, None))
        self.line = kw.pop('line', 0)
        assert not kw, kw
    def __repr__(self):
        return '%s(%s)' % (type(self).__name__, ', '.join('%s=%r' % (f, getattr(self, f)) for f in self._fields))

def node(name, fields):
    return type(name, (Node,), {'_fields': tuple(fields.split())})

# types
Type = node('Type', 'name args const ref ptr')          # args: list of Type|int
# expressions
Num = node('Num', 'text value isfloat')
Str = node('Str', 'value')
Chr = node('Chr', 'value')
BoolLit = node('BoolLit', 'value')
Id = node('Id', 'name targs')                            # qualified name 'a::b', optional template args
Unary = node('Unary', 'op e')
Postfix = node('Postfix', 'op e')
Binary = node('Binary', 'op l r')
Assign = node('Assign', 'op l r')
Cond = node('Cond', 'c a b')
Call = node('Call', 'f args')                            # f is expr (Id or Member)
Member = node('Member', 'e name arrow targs')
Index = node('Index', 'e i')
Cast = node('Cast', 'type e kind')
Construct = node('Construct', 'type args braced')        # T(args) or T{args}
InitList = node('InitList', 'items')
Lambda = node('Lambda', 'captures params body')
Log = node('Log', 'level toks')                          # ERROR(...)/WARNING(...)/VERBOSE(...)
Comma = node('Comma', 'l r')
# statements
Block = node('Block', 'stmts')
Decl = node('Decl', 'type name init dims ctor_args is_static braced')
DeclGroup = node('DeclGroup', 'decls')
ExprStmt = node('ExprStmt', 'e')
If = node('If', 'c a b')
For = node('For', 'init c step body')
RangeFor = node('RangeFor', 'decl range body')
While = node('While', 'c body')
DoWhile = node('DoWhile', 'body c')
Switch = node('Switch', 'e cases')                       # cases: list of (labels(list of expr|None), stmts)
Break = node('Break', '')
Continue = node('Continue', '')
Return = node('Return', 'e')
Throw = node('Throw', 'e')
Try = node('Try', 'body handlers')                       # handlers: list of (Type|None(for ...), name, Block)
Empty = node('Empty', '')
LocalClass = node('LocalClass', 'name')
# top level
Param = node('Param', 'type name default')
FuncDef = node('FuncDef', 'ret qname params body const noexcept inits template file cls body_toks static extern_c')
VarDef = node('VarDef', 'decl file')
ClassDef = node('ClassDef', 'name bases members methods file kind')
EnumDef = node('EnumDef', 'name items scoped')

BUILTIN_TYPES = {'double', 'int', 'unsigned', 'bool', 'void', 'char', 'long', 'float', 'short',
                 'auto', 'size_t', 'signed'}
TEMPLATE_NAMES = {'static_cast', 'const_cast', 'reinterpret_cast', 'dynamic_cast',
                  'std::complex', 'Eigen::Matrix', 'Eigen::Array', 'std::numeric_limits', 'std::tuple',
                  'std::get', 'std::max', 'std::min', 'std::vector', 'std::array', 'std::pair',
                  'std::unique_ptr', 'std::function', 'std::map', 'std::is_same', 'std::enable_if',
                  'Eigen::NumTraits', 'std::remove_reference', 'std::is_unsigned', 'std::is_signed',
                  'Eigen::PermutationMatrix', 'Eigen::MatrixBase', 'Eigen::ArrayBase', 'Eigen::DenseBase',
                  'Eigen::JacobiSVD', 'Eigen::SelfAdjointEigenSolver', 'std::basic_string', 'std::make_unique',
                  'Eigen::Map', 'std::decay', 'std::common_type', 'std::make_pair', 'std::abs'}
DECL_SPECS = {'const', 'constexpr', 'static', 'inline', 'extern', 'volatile', 'mutable', 'virtual', 'explicit',
              'typename', 'friend', 'thread_local', 'register'}

class Parser:
    def __init__(self, toks, known_types=None, known_templates=None, fname='?'):
        self.t = toks
        self.i = 0
        self.fname = fname
        self.known_types = set(known_types or ())
        self.known_templates = set(TEMPLATE_NAMES) | set(known_templates or ())

    # -- token helpers
    def peek(self, k=0):
        return self.t[min(self.i + k, len(self.t) - 1)]
    def at(self, v, k=0):
        t = self.peek(k)
        return t.v == v and t.k in ('op', 'id')
    def next(self):
        t = self.t[self.i]
        self.i += 1
        return t
    def accept(self, v):
        if self.at(v):
            self.i += 1
            return True
        return False
    def expect(self, v):
        if not self.at(v):
            t = self.peek()
            raise ParseError('%s:%d: expected %r, got %r' % (self.fname, t.line, v, t.v))
        return self.next()
    def err(self, msg):
        t = self.peek()
        raise ParseError('%s:%d: %s (at %r)' % (self.fname, t.line, msg, t.v))

    # -- names and types
    def parse_qname(self):
        """a::b::c (leading :: allowed). Returns string."""
        parts = []
        if self.at('::'):
            self.next()
        t = self.peek()
        if t.k != 'id':
            self.err('identifier expected')
        parts.append(self.next().v)
        while self.at('::') and self.peek(1).k == 'id':
            self.next()
            if self.peek().v == 'template':
                self.next()
            parts.append(self.next().v)
        if parts[-1] == 'operator':
            # operator<< etc
            op = self.next().v
            if op == '(' :
                self.expect(')'); op = '()'
            elif op == '[':
                self.expect(']'); op = '[]'
            parts[-1] = 'operator' + op
        return '::'.join(parts)

    def skip_balanced_angle(self):
        assert self.at('<')
        depth = 0
        while True:
            t = self.next()
            if t.k == 'eof':
                self.err('unbalanced <')
            if t.v == '<':
                depth += 1
            elif t.v == '>':
                depth -= 1
                if depth == 0:
                    return
            elif t.v == '>>':
                depth -= 2
                if depth <= 0:
                    return
            elif t.v == '(':
                self.i -= 1
                self.skip_balanced('(', ')')

    def skip_balanced(self, o, c):
        self.expect(o)
        depth = 1
        while depth:
            t = self.next()
            if t.k == 'eof':
                self.err('unbalanced ' + o)
            if t.k == 'op' and t.v == o:
                depth += 1
            elif t.k == 'op' and t.v == c:
                depth -= 1

    def parse_template_args(self):
        """after '<' consumed? no: expects '<'. returns list of Type|expr"""
        self.expect('<')
        args = []
        if self.at('>'):
            self.next()
            return args
        while True:
            save = self.i
            try:
                ty = self.try_parse_type()
                if ty is None or not (self.at(',') or self.at('>') or self.at('>>')):
                    raise ParseError('x')
                args.append(ty)
            except ParseError:
                self.i = save
                # constant expression (no top-level '>')
                args.append(self.parse_binary(11))   # above relational level: shifts and tighter
            if self.accept(','):
                continue
            if self.at('>>'):
                # split token
                t = self.peek()
                t.v = '>'
                return args
            self.expect('>')
            return args

    def looks_like_type_start(self):
        t = self.peek()
        if t.k != 'id':
            return False
        if t.v in BUILTIN_TYPES or t.v in DECL_SPECS or t.v in ('struct', 'class', 'enum', 'unsigned'):
            return True
        return True  # any identifier may name a type; decided by caller via backtracking

    def try_parse_type(self):
        """Parse a type; return Type or None if the tokens cannot start a type."""
        const = False
        is_static = False
        while self.peek().k == 'id' and self.peek().v in DECL_SPECS:
            v = self.next().v
            if v in ('const', 'constexpr'):
                const = True
            if v in ('static', 'thread_local'):
                is_static = True          # static storage duration (per process or per thread): the variable outlives the call
        if self.peek().k == 'id' and self.peek().v in ('struct', 'class', 'enum'):
            self.next()
        t = self.peek()
        if t.k != 'id' and not self.at('::'):
            return None
        # multiword builtin
        if t.v in ('unsigned', 'signed', 'long', 'short'):
            words = []
            while self.peek().k == 'id' and self.peek().v in ('unsigned', 'signed', 'long', 'short', 'int', 'char', 'double'):
                words.append(self.next().v)
            name = ' '.join(words)
            args = None
        else:
            name = self.parse_qname()
            args = None
            if self.at('<') and (name in self.known_templates or name.split('::')[-1] in self.known_templates):
                args = self.parse_template_args()
            elif self.at('<'):
                save = self.i
                try:
                    args = self.parse_template_args()
                    if not (self.peek().k == 'id' or self.peek().v in ('&', '*', '&&', '::', '(', '{', '>', ',', ')')):
                        raise ParseError('not a template type')
                except ParseError:
                    self.i = save
                    args = None
            if args is not None:
                # nested ::type / ::value after template
                while self.at('::') and self.peek(1).k == 'id':
                    self.next()
                    name = name + '<>::' + self.next().v
        ty = Type(name, args, const, False, 0)
        ty.is_static = is_static
        while True:
            if self.peek().k == 'id' and self.peek().v == 'const':
                self.next(); ty.const = True
            elif self.at('&'):
                self.next(); ty.ref = True
            elif self.at('&&'):
                self.next(); ty.ref = True
            elif self.at('*'):
                self.next(); ty.ptr += 1
            else:
                break
        return ty

    # -- expressions
    BINPREC = {'||': 4, '&&': 5, '|': 6, '^': 7, '&': 8, '==': 9, '!=': 9,
               '<': 10, '>': 10, '<=': 10, '>=': 10, '<<': 11, '>>': 11,
               '+': 12, '-': 12, '*': 13, '/': 13, '%': 13}
    ASSIGN_OPS = {'=', '+=', '-=', '*=', '/=', '%=', '&=', '|=', '^=', '<<=', '>>='}

    def parse_expr(self):
        e = self.parse_assign()
        while self.at(','):
            ln = self.next().line
            r = self.parse_assign()
            e = Comma(e, r, line=ln)
        return e

    def parse_assign(self):
        if self.at('throw'):
            ln = self.next().line
            return Throw(self.parse_assign(), line=ln)
        if self.at('{'):
            return self.parse_initlist()
        l = self.parse_ternary()
        t = self.peek()
        if t.k == 'op' and t.v in self.ASSIGN_OPS:
            self.next()
            r = self.parse_assign()
            return Assign(t.v, l, r, line=t.line)
        return l

    def parse_ternary(self):
        c = self.parse_binary(4)
        if self.at('?'):
            ln = self.next().line
            a = self.parse_assign()
            self.expect(':')
            b = self.parse_assign()
            return Cond(c, a, b, line=ln)
        return c

    def parse_binary(self, minprec):
        l = self.parse_unary()
        while True:
            t = self.peek()
            if t.k != 'op' or t.v not in self.BINPREC:
                return l
            p = self.BINPREC[t.v]
            if p < minprec:
                return l
            self.next()
            r = self.parse_binary(p + 1)
            l = Binary(t.v, l, r, line=t.line)

    def parse_unary(self):
        t = self.peek()
        if t.k == 'op' and t.v in ('-', '+', '!', '~', '*', '&', '++', '--'):
            self.next()
            e = self.parse_unary()
            return Unary(t.v, e, line=t.line)
        if t.k == 'id' and t.v == 'new':
            self.next()
            ty = self.try_parse_type()
            args = []
            if self.at('('):
                self.next()
                args = self.parse_args(')')
            return Construct(ty, args, False, line=t.line, )
        if t.k == 'id' and t.v == 'delete':
            self.next()
            e = self.parse_unary()
            return Call(Id('__delete', None, line=t.line), [e], line=t.line)
        if t.k == 'id' and t.v == 'sizeof':
            self.next()
            self.skip_balanced('(', ')')
            return Num('sizeof', 8, False, line=t.line)
        # C-style cast: (double)x, (int)x
        if t.v == '(' and self.peek(1).k == 'id' and self.peek(1).v in BUILTIN_TYPES and self.peek(2).v == ')':
            self.next()
            ty = self.try_parse_type()
            self.expect(')')
            e = self.parse_unary()
            return Cast(ty, e, 'c', line=t.line)
        return self.parse_postfix()

    def parse_args(self, close=')'):
        args = []
        if self.at(close):
            self.next()
            return args
        while True:
            args.append(self.parse_assign())
            if self.accept(','):
                continue
            self.expect(close)
            return args

    def parse_initlist(self):
        ln = self.expect('{').line
        items = self.parse_args('}')
        return InitList(items, line=ln)

    def parse_postfix(self):
        e = self.parse_primary()
        while True:
            t = self.peek()
            if t.v == '(' and t.k == 'op':
                self.next()
                args = self.parse_args(')')
                e = Call(e, args, line=t.line)
            elif t.v == '[' and t.k == 'op':
                self.next()
                i = self.parse_expr()
                self.expect(']')
                e = Index(e, i, line=t.line)
            elif t.v in ('.', '->') and t.k == 'op':
                self.next()
                if self.at('template'):
                    self.next()
                nm = self.next()
                if nm.k != 'id':
                    self.err('member name expected')
                name = nm.v
                if name == 'operator':
                    name += self.next().v
                    if name == 'operator(':
                        self.expect(')'); name = 'operator()'
                targs = None
                if self.at('<') and name in ('cast', 'get', 'block', 'head', 'tail', 'segment'):
                    targs = self.parse_template_args()
                e = Member(e, name, t.v == '->', targs, line=t.line)
            elif t.v in ('++', '--') and t.k == 'op':
                self.next()
                e = Postfix(t.v, e, line=t.line)
            else:
                return e

    def parse_primary(self):
        t = self.peek()
        if t.k == 'num':
            self.next()
            txt = t.v
            body = txt.rstrip('fFlLuU') if not txt.lower().startswith('0x') else txt.rstrip('uUlL')
            if txt.lower().startswith('0x'):
                return Num(txt, int(body, 16), False, line=t.line)
            isfloat = any(c in body for c in '.eE')
            return Num(txt, float(body) if isfloat else int(body), isfloat, line=t.line)
        if t.k == 'str':
            self.next()
            s = t.v[1:-1]
            while self.peek().k == 'str':
                s += self.next().v[1:-1]
            return Str(s, line=t.line)
        if t.k == 'chr':
            self.next()
            return Chr(t.v[1:-1], line=t.line)
        if t.v == '(' and t.k == 'op':
            self.next()
            e = self.parse_expr()
            self.expect(')')
            e.paren = True
            return e
        if t.v == '[' and t.k == 'op':
            return self.parse_lambda()
        if t.v == '{' and t.k == 'op':
            return self.parse_initlist()
        if t.k == 'id':
            if t.v in ('true', 'false'):
                self.next()
                return BoolLit(t.v == 'true', line=t.line)
            if t.v == 'nullptr':
                self.next()
                return Num('nullptr', 0, False, line=t.line)
            if t.v == 'this':
                self.next()
                return Id('this', None, line=t.line)
            if t.v in LOG_MACROS and self.peek(1).v == '(':
                self.next()
                start = self.i
                self.skip_balanced('(', ')')
                return Log(t.v, self.t[start + 1:self.i - 1], line=t.line)
            if t.v in ('static_cast', 'const_cast', 'reinterpret_cast', 'dynamic_cast'):
                self.next()
                self.expect('<')
                ty = self.try_parse_type()
                if self.at('>>'):
                    self.peek().v = '>'
                else:
                    self.expect('>')
                self.expect('(')
                e = self.parse_expr()
                self.expect(')')
                return Cast(ty, e, t.v, line=t.line)
            if t.v in BUILTIN_TYPES and t.v != 'auto' or t.v in ('unsigned',):
                ty = self.try_parse_type()
                if self.at('('):
                    self.next()
                    args = self.parse_args(')')
                    return Construct(ty, args, False, line=t.line)
                if self.at('{'):
                    self.next()
                    args = self.parse_args('}')
                    return Construct(ty, args, True, line=t.line)
                self.err('unexpected type in expression')
            if t.v == 'typename':
                self.next()
            name = self.parse_qname()
            targs = None
            if self.at('<'):
                known = (name in self.known_templates or name.split('::')[-1] in self.known_templates)
                save = self.i
                try:
                    targs = self.parse_template_args()
                    if not known and not (self.at('(') or self.at('::')):
                        raise ParseError('not a template')
                except ParseError:
                    self.i = save
                    for tk in self.t[save:save + 40]:
                        if tk.k == 'op' and tk.v == '>' and getattr(tk, 'was_shift', False):
                            pass
                    targs = None
                if targs is not None:
                    # T<..>::member
                    while self.at('::') and self.peek(1).k == 'id':
                        self.next()
                        name = name + '<>::' + self.next().v
                    ty = Type(name, targs, False, False, 0)
                    if self.at('(') and self._is_type_name(name):
                        self.next()
                        args = self.parse_args(')')
                        return Construct(ty, args, False, line=t.line)
                    if self.at('{') and self._is_type_name(name):
                        self.next()
                        args = self.parse_args('}')
                        return Construct(ty, args, True, line=t.line)
            if targs is None and self.at('{') and self._is_type_name(name):
                self.next()
                args = self.parse_args('}')
                return Construct(Type(name, None, False, False, 0), args, True, line=t.line)
            return Id(name, targs, line=t.line)
        self.err('unexpected token in expression')

    def _is_type_name(self, name):
        return (name in ('std::complex', 'Eigen::Matrix', 'Eigen::Array', 'std::tuple', 'std::pair',
                         'std::vector', 'std::array', 'std::string')
                or name in self.known_types or name.split('::')[-1] in self.known_types)

    def parse_lambda(self):
        ln = self.peek().line
        self.expect('[')
        caps = []
        while not self.at(']'):
            caps.append(self.next().v)
        self.expect(']')
        params = []
        if self.at('('):
            self.next()
            params = self.parse_params()
        while self.peek().k == 'id' and self.peek().v in ('mutable', 'noexcept', 'constexpr'):
            self.next()
        if self.at('->'):
            self.next()
            self.try_parse_type()
        body = self.parse_block()
        return Lambda(caps, params, body, line=ln)

    # -- statements
    def parse_block(self):
        ln = self.expect('{').line
        stmts = []
        while not self.at('}'):
            if self.peek().k == 'eof':
                self.err('unterminated block')
            stmts.append(self.parse_stmt())
        self.next()
        return Block(stmts, line=ln)

    def parse_stmt(self):
        t = self.peek()
        if t.k == 'op':
            if t.v == '{':
                return self.parse_block()
            if t.v == ';':
                self.next()
                return Empty(line=t.line)
        if t.k == 'id':
            v = t.v
            if v == 'if':
                self.next()
                if self.at('constexpr'):
                    self.next()
                self.expect('(')
                c = self.parse_expr()
                self.expect(')')
                a = self.parse_stmt()
                b = None
                if self.at('else'):
                    self.next()
                    b = self.parse_stmt()
                return If(c, a, b, line=t.line)
            if v == 'for':
                self.next()
                self.expect('(')
                # range-for?
                save = self.i
                d = self.try_parse_decl_head()
                if d is not None and self.at(':'):
                    self.next()
                    rng = self.parse_expr()
                    self.expect(')')
                    body = self.parse_stmt()
                    return RangeFor(d, rng, body, line=t.line)
                self.i = save
                init = None
                if not self.at(';'):
                    init = self.parse_decl_or_expr_stmt()
                else:
                    self.next()
                c = None
                if not self.at(';'):
                    c = self.parse_expr()
                self.expect(';')
                step = None
                if not self.at(')'):
                    step = self.parse_expr()
                self.expect(')')
                body = self.parse_stmt()
                return For(init, c, step, body, line=t.line)
            if v == 'while':
                self.next()
                self.expect('(')
                c = self.parse_expr()
                self.expect(')')
                return While(c, self.parse_stmt(), line=t.line)
            if v == 'do':
                self.next()
                body = self.parse_stmt()
                self.expect('while')
                self.expect('(')
                c = self.parse_expr()
                self.expect(')')
                self.expect(';')
                return DoWhile(body, c, line=t.line)
            if v == 'switch':
                self.next()
                self.expect('(')
                e = self.parse_expr()
                self.expect(')')
                self.expect('{')
                cases = []
                while not self.at('}'):
                    labels = []
                    while self.at('case') or self.at('default'):
                        if self.next().v == 'case':
                            labels.append(self.parse_ternary())
                        else:
                            labels.append(None)
                        self.expect(':')
                    if not labels:
                        self.err('case label expected')
                    stmts = []
                    while not (self.at('case') or self.at('default') or self.at('}')):
                        stmts.append(self.parse_stmt())
                    cases.append((labels, stmts))
                self.next()
                return Switch(e, cases, line=t.line)
            if v == 'break':
                self.next(); self.expect(';')
                return Break(line=t.line)
            if v == 'continue':
                self.next(); self.expect(';')
                return Continue(line=t.line)
            if v == 'return':
                self.next()
                e = None
                if not self.at(';'):
                    e = self.parse_expr()
                self.expect(';')
                return Return(e, line=t.line)
            if v == 'throw':
                self.next()
                e = None
                if not self.at(';'):
                    e = self.parse_assign()
                self.expect(';')
                return Throw(e, line=t.line)
            if v == 'try':
                self.next()
                body = self.parse_block()
                handlers = []
                while self.at('catch'):
                    self.next()
                    self.expect('(')
                    if self.at('...'):
                        self.next()
                        ty, nm = None, None
                    else:
                        ty = self.try_parse_type()
                        nm = None
                        if self.peek().k == 'id':
                            nm = self.next().v
                    self.expect(')')
                    handlers.append((ty, nm, self.parse_block()))
                return Try(body, handlers, line=t.line)
            if v == 'static_assert':
                self.next()
                self.skip_balanced('(', ')')
                self.expect(';')
                return Empty(line=t.line)
            if v in ('using', 'typedef'):
                while not self.at(';'):
                    self.next()
                self.next()
                return Empty(line=t.line)
            if v in ('class', 'struct') and self.peek(1).k == 'id' and self.peek(2).v in ('{', ':', 'final') and getattr(self, 'unit', None) is not None:
                # class defined inside a function body: parsed like a namespace-scope class, registered with the enclosing unit
                nm = self.peek(1).v
                tl = TopLevel(self, self.unit)
                if tl.try_parse_class():
                    self.known_types.add(nm)
                    return LocalClass(nm, line=t.line)
        return self.parse_decl_or_expr_stmt()

    def try_parse_decl_head(self):
        """type name  (no initializer). returns Decl or None."""
        save = self.i
        try:
            ty = self.try_parse_type()
            if ty is None or self.peek().k != 'id' or self.peek().v in ('operator',):
                self.i = save
                return None
            nm = self.next().v
            return Decl(ty, nm, None, None, None, False, False)
        except ParseError:
            self.i = save
            return None

    def parse_decl_or_expr_stmt(self):
        save = self.i
        ln = self.peek().line
        d = None
        inner = None
        try:
            ty = self.try_parse_type()
            if ty is not None and self.peek().k == 'id' and self.peek(1).v in ('=', '(', '{', ';', ',', '[', ':'):
                try:
                    d = self._parse_declarators(ty, ln)
                except ParseError as e:
                    inner = e
                    d = None
        except ParseError:
            d = None
        if d is not None:
            return d
        self.i = save
        try:
            e = self.parse_expr()
            self.expect(';')
        except ParseError:
            if inner is not None:
                raise inner
            raise
        return ExprStmt(e, line=ln)

    def _parse_declarators(self, ty, ln):
        decls = []
        while True:
            extra_ref = False
            while self.at('&') or self.at('*'):
                self.next(); extra_ref = True
            nmtok = self.next()
            if nmtok.k != 'id':
                raise ParseError('declarator')
            dims = None
            init = None
            ctor = None
            braced = False
            if self.at('['):
                dims = []
                while self.at('['):
                    self.next()
                    if self.at(']'):
                        dims.append(None)
                    else:
                        dims.append(self.parse_expr())
                    self.expect(']')
            if self.at('='):
                self.next()
                init = self.parse_assign()
            elif self.at('('):
                self.next()
                ctor = self.parse_args(')')
            elif self.at('{'):
                self.next()
                ctor = self.parse_args('}')
                braced = True
            dty = ty
            decls.append(Decl(dty, nmtok.v, init, dims, ctor, getattr(ty, 'is_static', False), braced, line=ln))
            if self.accept(','):
                continue
            self.expect(';')
            break
        if len(decls) == 1:
            return decls[0]
        return DeclGroup(decls, line=ln)

    def parse_params(self):
        """after '(' consumed; consumes ')'."""
        params = []
        if self.at(')'):
            self.next()
            return params
        while True:
            if self.at('...'):
                self.next()
                self.expect(')')
                return params
            ty = self.try_parse_type()
            if ty is None:
                self.err('parameter type expected')
            name = None
            # function-pointer / array-ref params: T (&name)[N]
            if self.at('('):
                self.next()
                while self.at('&') or self.at('*'):
                    self.next()
                name = self.next().v
                self.expect(')')
                if self.at('['):
                    self.skip_balanced('[', ']')
                    ty = Type(ty.name, ty.args, ty.const, True, 0)
                    ty.is_array = True
            elif self.peek().k == 'id':
                name = self.next().v
                if self.at('['):
                    self.skip_balanced('[', ']')
                    ty.ptr += 1
            default = None
            if self.at('='):
                self.next()
                default = self.parse_assign()
            params.append(Param(ty, name, default))
            if self.accept(','):
                continue
            self.expect(')')
            return params

# --------------------------------------------------------------------------
# top-level (translation unit) parser
# --------------------------------------------------------------------------
class Unit:
    """Parsed translation unit: functions, file-scope variables, classes, enums."""
    def __init__(self, path):
        self.path = path
        self.funcs = []      # FuncDef (bodies parsed lazily)
        self.vars = []       # VarDef
        self.classes = {}    # name -> ClassDef
        self.enums = {}      # name -> EnumDef
        self.defines = {}
        self.macro_counts = {}
        self.skipped = []    # (line, reason)
        self.aliases = set()
        self.proto_defaults = {}

def parse_file(path, known_types=None, extra_defines=None):
    text = open(path).read()
    text2, defines = strip_preprocessor(text)
    u = Unit(path)
    u.defines = defines
    alldefs = dict(extra_defines or {})
    alldefs.update(defines)
    # include guards / empty defines must not be expanded to nothing inside code: drop empties that are guards
    alldefs = {k: v for k, v in alldefs.items() if not (v[0] is None and v[1] == '' and k.endswith(('_H', '_HPP', '_H_')))}
    toks = lex(text2)
    toks = expand_macros(toks, alldefs, u.macro_counts)
    p = Parser(toks, known_types=known_types, fname=os.path.basename(path))
    tl = TopLevel(p, u)
    tl.parse_decls(until_eof=True)
    return u

class TopLevel:
    def __init__(self, p, unit):
        self.p = p
        self.u = unit
        self.ns = []
        self.extern_c = False

    def parse_decls(self, until_eof=False, cls=None):
        p = self.p
        while True:
            t = p.peek()
            if t.k == 'eof':
                if until_eof:
                    return
                p.err('unexpected eof')
            if t.v == '}' and t.k == 'op':
                if until_eof:
                    p.err('unbalanced }')
                return
            start = p.i
            try:
                self.parse_item(cls)
            except ParseError as e:
                # skip the item: to matching ';' or balanced '}' at depth 0
                self.u.skipped.append((t.line, str(e)))
                p.i = start
                self.skip_item()

    def skip_item(self):
        p = self.p
        depth = 0
        while True:
            t = p.next()
            if t.k == 'eof':
                p.i -= 1
                return
            if t.k == 'op':
                if t.v in '({[':
                    depth += 1
                elif t.v in ')}]':
                    depth -= 1
                    if depth < 0:
                        p.i -= 1
                        return
                    if depth == 0 and t.v == '}':
                        p.accept(';')
                        return
                elif t.v == ';' and depth == 0:
                    return

    def parse_item(self, cls):
        p = self.p
        u = self.u
        t = p.peek()
        if t.v == ';':
            p.next(); return
        if t.k == 'id':
            if t.v == 'namespace':
                p.next()
                name = None
                if p.peek().k == 'id':
                    name = p.parse_qname()
                if p.at('='):
                    while not p.at(';'): p.next()
                    p.next(); return
                p.expect('{')
                self.ns.append(name)
                self.parse_decls()
                self.ns.pop()
                p.expect('}')
                return
            if t.v == 'extern' and p.peek(1).k == 'str':
                p.next(); p.next()
                if p.at('{'):
                    p.next()
                    old = self.extern_c
                    self.extern_c = True
                    self.parse_decls()
                    self.extern_c = old
                    p.expect('}')
                else:
                    old = self.extern_c
                    self.extern_c = True
                    try:
                        self.parse_item(cls)
                    finally:
                        self.extern_c = old
                return
            if t.v == 'using' and p.peek(1).k == 'id' and p.peek(2).v == '=':
                p.known_types.add(p.peek(1).v)
                self.u.aliases.add(p.peek(1).v)
            if t.v == 'typedef' and p.peek(1).v == 'enum':
                p.next()
                self.parse_enum(typedef=True)
                return
            if t.v in ('using', 'typedef', 'static_assert', 'friend'):
                while not p.at(';'):
                    if p.at('{'): p.skip_balanced('{', '}')
                    else: p.next()
                p.next(); return
            if t.v in ('public', 'private', 'protected') and p.peek(1).v == ':':
                p.next(); p.next(); return
            if t.v == 'template':
                p.next()
                tparams = self.parse_template_params()
                self.parse_item_after_template(cls, tparams)
                return
            if t.v in ('class', 'struct') :
                if self.try_parse_class():
                    return
            if t.v == 'enum':
                self.parse_enum(cls=cls)
                return
        self.parse_item_after_template(cls, None)

    def parse_template_params(self):
        p = self.p
        start = p.i
        p.skip_balanced_angle()
        toks = p.t[start + 1:p.i - 1]
        names = []
        for k, tk in enumerate(toks):
            if tk.k == 'id' and (k + 1 == len(toks) or toks[k + 1].v in (',', '=')) :
                names.append(tk.v)
        return names

    def try_parse_class(self):
        p = self.p
        save = p.i
        kind = p.next().v
        if p.peek().k != 'id':
            p.i = save
            return False
        name = p.parse_qname()
        if p.at('<'):
            st = p.i
            p.skip_balanced_angle()
            name = name + '<' + ''.join(x.v for x in p.t[st + 1:p.i - 1]) + '>'
        if p.at('final'):
            p.next()
        bases = []
        if p.at(';'):
            p.next()
            p.known_types.add(name)
            return True
        if p.at(':'):
            p.next()
            while True:
                while p.peek().k == 'id' and p.peek().v in ('public', 'private', 'protected', 'virtual'):
                    p.next()
                bases.append(p.parse_qname())
                if p.at('<'):
                    p.skip_balanced_angle()
                if not p.accept(','):
                    break
        if not p.at('{'):
            p.i = save
            return False
        p.next()
        p.known_types.add(name)
        cd = ClassDef(name, bases, [], [], self.u.path, kind)
        self.u.classes[name] = cd
        old_ns = self.ns
        self.parse_decls(cls=cd)
        p.expect('}')
        # optional declarators after class body
        while not p.at(';'):
            p.next()
        p.next()
        return True

    def parse_enum(self, typedef=False, cls=None):
        p = self.p
        p.expect('enum')
        scoped = False
        if p.at('class') or p.at('struct'):
            p.next(); scoped = True
        name = None
        if p.peek().k == 'id':
            name = p.parse_qname()
        if p.at(':'):
            p.next(); p.try_parse_type()
        if p.at(';'):
            p.next(); return
        p.expect('{')
        items = []
        val = 0
        while not p.at('}'):
            nm = p.next().v
            if p.at('='):
                p.next()
                e = p.parse_ternary()
                val = const_eval(e, dict(items))
            items.append((nm, val))
            val += 1
            if not p.accept(','):
                break
        p.expect('}')
        if typedef and p.peek().k == 'id':
            name = p.next().v
        p.accept(';')
        ed = EnumDef(name, items, scoped)
        ed.cls = cls.name if cls is not None else None      # enclosing class of a nested enum (its enumerators are Class::item)
        if name:
            self.u.enums[name] = ed
            p.known_types.add(name)
        else:
            self.u.enums.setdefault('', EnumDef('', [], False)).items.extend(items)

    def parse_item_after_template(self, cls, tparams):
        p = self.p
        u = self.u
        t0 = p.peek()
        if t0.k == 'id' and t0.v in ('class', 'struct') and tparams is not None:
            if self.try_parse_class():
                return
        # constructor / destructor inside class or out-of-class: Name::Name( or ~Name(
        is_static = False
        save = p.i
        # detect ctor: [explicit] qname '(' where last two comps equal, or in class and name==cls.name
        j = p.i
        while p.t[j].k == 'id' and p.t[j].v in ('explicit', 'inline', 'constexpr', 'virtual'):
            j += 1
        ret = None
        qname = None
        if p.t[j].v == '~' or (p.t[j].k == 'id' and self._is_ctor_at(j, cls)):
            p.i = j
            if p.at('~'):
                p.next()
                qname = '~' + p.parse_qname()
            else:
                qname = p.parse_qname()
            ret = None
        else:
            ret = p.try_parse_type()
            if ret is None:
                p.err('declaration expected')
            is_static = getattr(ret, 'is_static', False)
            if p.peek().k != 'id' and not p.at('::'):
                # e.g. "struct X;" handled elsewhere; conversion operators etc
                p.err('declarator expected')
            if p.at('operator'):
                qname = p.parse_qname()
            else:
                qname = p.parse_qname()
        if p.at('('):
            p.next()
            params = p.parse_params()
            const = False
            noexc = False
            while p.peek().k == 'id' and p.peek().v in ('const', 'noexcept', 'override', 'final', 'volatile'):
                v = p.next().v
                if v == 'const': const = True
                if v == 'noexcept':
                    noexc = True
                    if p.at('('):
                        p.skip_balanced('(', ')')
            if p.at('->'):
                p.next()
                ret = p.try_parse_type()
            inits = None
            if p.at('='):
                # = default / = delete / = 0
                while not p.at(';'): p.next()
                p.next()
                return
            if p.at(';'):
                p.next()
                # prototype: remember default arguments (they belong to the out-of-line definition too)
                if any(q.default is not None for q in params):
                    full = qname if cls is None else cls.name + '::' + qname
                    u.proto_defaults.setdefault(full, []).append(params)
                return   # prototype
            if p.at(':'):
                p.next()
                inits = []
                while True:
                    nm = p.parse_qname()
                    if p.at('<'):
                        p.skip_balanced_angle()
                    if p.at('('):
                        p.next(); args = p.parse_args(')')
                    else:
                        p.expect('{'); args = p.parse_args('}')
                    inits.append((nm, args))
                    if not p.accept(','):
                        break
            if not p.at('{'):
                p.err('function body expected')
            bstart = p.i
            p.skip_balanced('{', '}')
            body_toks = p.t[bstart:p.i]
            full = qname
            clsname = None
            if cls is not None:
                clsname = cls.name
                full = cls.name + '::' + qname
            elif '::' in qname:
                clsname = qname.rsplit('::', 1)[0]
            fd = FuncDef(ret, full, params, None, const, noexc, inits, tparams, u.path, clsname, body_toks,
                         is_static, self.extern_c, line=t0.line)
            fd.anon = None in self.ns
            fd.ns = [n for n in self.ns if n]
            u.funcs.append(fd)
            if cls is not None:
                cls.methods.append(fd)
            return
        # variable definition(s)
        p.i = save
        ty = p.try_parse_type()
        d = p._parse_declarators(ty, t0.line)
        decls = d.decls if isinstance(d, DeclGroup) else [d]
        for dd in decls:
            if cls is not None:
                cls.members.append(dd)
            else:
                vd = VarDef(dd, u.path, line=t0.line)
                vd.anon = None in self.ns
                u.vars.append(vd)

    def _is_ctor_at(self, j, cls):
        p = self.p
        # qname followed by '('
        k = j
        parts = []
        if p.t[k].k != 'id':
            return False
        parts.append(p.t[k].v); k += 1
        while p.t[k].v == '::' and p.t[k + 1].k == 'id':
            parts.append(p.t[k + 1].v); k += 2
        if p.t[k].v == '::' and p.t[k + 1].v == '~':
            return False
        if p.t[k].v != '(':
            return False
        if len(parts) >= 2 and parts[-1] == parts[-2]:
            return True
        if cls is not None and len(parts) == 1 and parts[0] == cls.name:
            return True
        return False

def const_eval(e, env):
    if isinstance(e, Num):
        return e.value
    if isinstance(e, Id) and e.name in env:
        return env[e.name]
    if isinstance(e, Unary) and e.op == '-':
        return -const_eval(e.e, env)
    if isinstance(e, Binary):
        a, b = const_eval(e.l, env), const_eval(e.r, env)
        return {'+': a + b, '-': a - b, '*': a * b, '<<': a << b, '|': a | b}[e.op]
    raise ParseError('enum value not constant')

def parse_body(fd, known_types=None, known_templates=None):
    """Parse the (lazily stored) body of a FuncDef."""
    if fd.body is not None:
        return fd.body
    toks = [Tok(t.k, t.v, t.pos, t.line) for t in fd.body_toks] + [Tok('eof', '', 0, 0)]
    kt = set(known_types or ())
    p = Parser(toks, known_types=kt, known_templates=known_templates, fname=os.path.basename(fd.file))
    p.unit = Unit(fd.file)
    fd.local_unit = p.unit
    fd.body = p.parse_block()
    return fd.body
