"""Obligation framework: contracts produce named goals; goals are discharged by SMT (back end B)
or CBMC (back end A); verdicts: proved / failed (with counterexample) / undecided / error."""
import os, sys, time, json, subprocess, tempfile, traceback, multiprocessing, signal
from fractions import Fraction
import z3
from .values import to_z3, z3real, is_sym

PROVED, FAILED, UNDECIDED, ERROR = 'proved', 'failed', 'undecided', 'error'

class GoalResult:
    def __init__(self, gid, status, backend, seconds, detail='', model=None, solver='', kind='post'):
        self.gid, self.status, self.backend, self.seconds = gid, status, backend, seconds
        self.detail, self.model, self.solver, self.kind = detail, model, solver, kind
    def to_dict(self):
        return dict(id=self.gid, status=self.status, backend=self.backend, seconds=round(self.seconds, 3),
                    detail=self.detail, model=self.model, solver=self.solver, kind=self.kind)

def model_value(m, v):
    try:
        r = m.eval(v, model_completion=True)
    except z3.Z3Exception:
        return None
    if z3.is_rational_value(r):
        return Fraction(r.numerator_as_long(), r.denominator_as_long())
    if z3.is_algebraic_value(r):
        a = r.approx(30)
        return Fraction(a.numerator_as_long(), a.denominator_as_long())
    if z3.is_int_value(r):
        return r.as_long()
    if z3.is_true(r):
        return True
    if z3.is_false(r):
        return False
    return None

def smt_check(assumptions, extra, timeout_ms, want_model_vars=None, tactics=('default', 'nlsat')):
    """returns (status 'unsat'|'sat'|'unknown', model dict or None, solver name, seconds)"""
    t0 = time.time()
    last = 'unknown'
    for tac in tactics:
        if tac == 'default':
            s = z3.Solver()
        elif tac == 'nlsat':
            s = z3.Tactic('qfnra-nlsat').solver()
        else:
            s = z3.Tactic(tac).solver()
        s.set('timeout', int(timeout_ms))
        for a in assumptions:
            s.add(a)
        for a in extra:
            s.add(a)
        try:
            r = s.check()
        except z3.Z3Exception as e:
            r = z3.unknown
        if r == z3.unsat:
            return 'unsat', None, 'z3-%s(%s)' % (z3.get_version_string(), tac), time.time() - t0
        if r == z3.sat:
            m = s.model()
            mv = {}
            for name, v in (want_model_vars or {}).items():
                val = model_value(m, v)
                if val is not None:
                    mv[name] = val
            return 'sat', mv, 'z3-%s(%s)' % (z3.get_version_string(), tac), time.time() - t0
        last = 'unknown'
    return last, None, 'z3', time.time() - t0

def smt_external(assumptions, extra, timeout_s):
    """second opinion from the installed z3 4.8.12 and cvc5 binaries (via SMT-LIB)"""
    s = z3.Solver()
    for a in assumptions:
        s.add(a)
    for a in extra:
        s.add(a)
    txt = s.to_smt2()
    out = []
    with tempfile.NamedTemporaryFile('w', suffix='.smt2', delete=False, dir=os.environ.get('GM2V_WORK', '/verif/.work')) as f:
        f.write(txt)
        path = f.name
    try:
        for name, cmd in (('z3-4.8.12', ['/usr/bin/z3', '-T:%d' % timeout_s, path]),
                          ('cvc5', ['cvc5', '--tlimit=%d' % (timeout_s * 1000), path])):
            t0 = time.time()
            try:
                r = subprocess.run(cmd, capture_output=True, text=True, timeout=timeout_s + 5)
                ans = r.stdout.strip().split('\n')[0] if r.stdout.strip() else 'unknown'
            except subprocess.TimeoutExpired:
                ans = 'unknown'
            if ans in ('unsat', 'sat'):
                return ans, name, time.time() - t0
    finally:
        try:
            os.unlink(path)
        except OSError:
            pass
    return 'unknown', 'z3-4.8.12+cvc5', 0.0

class Ctx:
    """handed to every obligation function"""
    def __init__(self, world, tier, seed, oid):
        self.w = world
        self.tier = tier
        self.seed = seed
        self.oid = oid
        self.results = []
        self.vars = {}
        self.notes = []
        self.rule_counts = {}
        self.timeout_ms = 20000 if tier == 'quick' else 120000
        self.assumed = []      # textual list of assumptions used (axioms, callee contracts)

    def real(self, name):
        v = z3.Real(name)
        self.vars[name] = v
        return v

    def reals(self, names):
        return [self.real(n) for n in names.split()]

    def assume_note(self, text):
        if text not in self.assumed:
            self.assumed.append(text)

    def merge_rules(self, interp):
        for k, v in interp.rule_counts.items():
            self.rule_counts[k] = self.rule_counts.get(k, 0) + v

    def prove(self, sub, assumptions, claim, kind='post', timeout_ms=None, model_vars=None, external=True,
              check_vacuity=True, tactics=('default', 'nlsat'), pins=None):
        """discharge `assumptions ==> claim`. Records a GoalResult; returns status."""
        gid = self.oid + ('.' + sub if sub else '')
        tmo = timeout_ms or self.timeout_ms
        assumptions = [to_z3(a) for a in assumptions]
        if isinstance(claim, bool):
            claim = z3.BoolVal(claim)
        t0 = time.time()
        if check_vacuity:
            st, _, _, _ = smt_check(assumptions, [], min(tmo, 5000), tactics=('default',))
            if st == 'unsat':
                self.results.append(GoalResult(gid, ERROR, 'B', time.time() - t0,
                                               'vacuous: assumptions are contradictory', kind=kind))
                return ERROR
        mv = dict(self.vars)
        if model_vars:
            mv.update(model_vars)
        st, model, solver, secs = smt_check(assumptions, [z3.Not(claim)], tmo, mv, tactics=tactics)
        if st == 'unknown' and pins:
            # refutation search: pin the inputs to candidate points; a pinned query is easy for the solver.
            # (only 'sat' answers are used: they are genuine counterexamples of the unpinned goal)
            for pin in pins:
                eqs = [self.vars[k] == to_z3(v) if k in self.vars else k == to_z3(v) for k, v in pin.items()]
                st3, model3, solver3, _ = smt_check(assumptions + eqs, [z3.Not(claim)], 3000, mv, tactics=('default',))
                if st3 == 'sat':
                    st, model, solver = 'sat', model3, solver3 + '+pinned'
                    break
        if st == 'unknown' and external:
            st2, solver2, secs2 = smt_external(assumptions, [z3.Not(claim)], max(5, int(tmo / 1000)))
            if st2 == 'unsat':
                st, solver = 'unsat', solver2
            elif st2 == 'sat':
                st, solver, model = 'sat', solver2, None
        secs = time.time() - t0
        if st == 'unsat':
            self.results.append(GoalResult(gid, PROVED, 'B', secs, solver=solver, kind=kind))
            return PROVED
        if st == 'sat':
            md = None
            if model is not None:
                md = {k: (str(v) if not isinstance(v, Fraction) else '%s' % (v,)) for k, v in model.items()}
                md['_float'] = {k: float(v) for k, v in model.items() if isinstance(v, (Fraction, int)) and not isinstance(v, bool)}
            self.results.append(GoalResult(gid, FAILED, 'B', secs, detail='counterexample', model=md, solver=solver, kind=kind))
            return FAILED
        self.results.append(GoalResult(gid, UNDECIDED, 'B', secs, detail='solver answered unknown / timeout', solver=solver, kind=kind))
        return UNDECIDED

    def record(self, sub, status, backend, seconds, detail='', model=None, solver='', kind='post'):
        gid = self.oid + ('.' + sub if sub else '')
        self.results.append(GoalResult(gid, status, backend, seconds, detail, model, solver, kind))
        return status

    def sides(self, sub, sym, pre, only=None):
        """discharge the side obligations (denominator != 0, sqrt/log domains) of one path"""
        n = 0
        ok = True
        for guards, cond, desc in sym.sides:
            if only is not None and not only(desc):
                continue
            n += 1
            st = self.prove('%s.side%d' % (sub, n), list(pre) + list(guards) + list(sym.axioms), cond if is_sym(cond) else z3.BoolVal(bool(cond)),
                            kind='side:' + desc, check_vacuity=False)
            ok = ok and st == PROVED
        return ok

# ------------------------------------------------------------------------------------------
class Obligation:
    def __init__(self, oid, func, fns, tier, backend, doc, replay=None, prop=None):
        self.oid, self.func, self.fns, self.tier, self.backend, self.doc = oid, func, fns, tier, backend, doc
        self.replay = replay
        self.prop = prop

REGISTRY = {}

def obligation(oid, fns=(), tier='quick', backend='B', replay=None):
    """decorator: register an obligation. fns: the real functions (repo-relative file, name) it puts under contract"""
    def deco(f):
        prop = oid.split('.')[0]
        REGISTRY.setdefault(prop, []).append(Obligation(oid, f, list(fns), tier, backend, (f.__doc__ or '').strip(), replay, prop))
        return f
    return deco

def _worker(ob, tier, seed, repo, q):
    try:
        from .world import World
        t0 = time.time()
        w = get_world(repo)
        ctx = Ctx(w, tier, seed, ob.oid)
        try:
            ob.func(ctx)
        except Exception as e:
            from .values import EvalError
            from .cxx import ParseError
            kind = 'extraction' if isinstance(e, (EvalError, ParseError)) else 'internal'
            ctx.results.append(GoalResult(ob.oid, ERROR, ob.backend, time.time() - t0,
                                          '%s error: %s\n%s' % (kind, e, traceback.format_exc()[-1500:])))
        q.put(dict(oid=ob.oid, results=[r.to_dict() for r in ctx.results], notes=ctx.notes,
                   rules=ctx.rule_counts, assumed=ctx.assumed, seconds=time.time() - t0))
    except BaseException as e:
        q.put(dict(oid=ob.oid, results=[GoalResult(ob.oid, ERROR, ob.backend, 0, 'worker crashed: %r' % (e,)).to_dict()],
                   notes=[], rules={}, assumed=[], seconds=0))

_WORLD = {}
def get_world(repo=None):
    from .world import World, REPO
    repo = repo or REPO
    if repo not in _WORLD:
        _WORLD[repo] = World(repo)
    return _WORLD[repo]

def run_obligations(obs, tier, seed, repo=None, jobs=None, hard_timeout=None):
    """run each obligation in its own process (fork); returns list of result dicts"""
    jobs = jobs or min(16, os.cpu_count() or 4)
    hard_timeout = hard_timeout or (240 if tier == 'quick' else 1800)
    get_world(repo)     # parse once, children inherit by fork
    pending = list(obs)
    running = []
    out = []
    ctxmp = multiprocessing.get_context('fork')
    while pending or running:
        while pending and len(running) < jobs:
            ob = pending.pop(0)
            q = ctxmp.Queue()
            p = ctxmp.Process(target=_worker, args=(ob, tier, seed, repo, q))
            p.start()
            running.append((ob, p, q, time.time()))
        time.sleep(0.02)
        still = []
        for ob, p, q, t0 in running:
            got = None
            try:
                got = q.get_nowait()
            except Exception:
                got = None
            if got is not None:
                p.join(5)
                if p.is_alive():
                    p.kill()
                out.append(got)
                continue
            if not p.is_alive():
                try:
                    got = q.get(timeout=1)
                    out.append(got)
                except Exception:
                    out.append(dict(oid=ob.oid, results=[GoalResult(ob.oid, ERROR, ob.backend, time.time() - t0,
                               'worker died (exit %s)' % p.exitcode).to_dict()], notes=[], rules={}, assumed=[], seconds=time.time() - t0))
                continue
            if time.time() - t0 > hard_timeout:
                p.kill()
                p.join()
                out.append(dict(oid=ob.oid, results=[GoalResult(ob.oid, UNDECIDED, ob.backend, time.time() - t0,
                           'hard timeout %ds' % hard_timeout).to_dict()], notes=[], rules={}, assumed=[], seconds=time.time() - t0))
                continue
            still.append((ob, p, q, t0))
        running = still
    order = {ob.oid: i for i, ob in enumerate(obs)}
    out.sort(key=lambda d: order.get(d['oid'], 0))
    return out
