"""Obligation framework: contracts produce named goals; goals are discharged by SMT (back end B)
or CBMC (back end A); verdicts: proved / failed (with counterexample) / undecided / error."""
import os, sys, time, json, subprocess, tempfile, traceback, multiprocessing, signal
from fractions import Fraction
import z3
from .values import to_z3, z3real, is_sym

PROVED, FAILED, UNDECIDED, ERROR = 'proved', 'failed', 'undecided', 'error'

class GoalResult:
    def __init__(self, gid, status, backend, seconds, detail='', model=None, solver='', kind='post'):
        self.gid, self.status, self.backend, self.seconds = gid, status, backend, seconds
        self.detail, self.model, self.solver, self.kind = detail, model, solver, kind
    def to_dict(self):
        return dict(id=self.gid, status=self.status, backend=self.backend, seconds=round(self.seconds, 3),
                    detail=self.detail, model=self.model, solver=self.solver, kind=self.kind)

def model_value(m, v):
    try:
        r = m.eval(v, model_completion=True)
    except z3.Z3Exception:
        return None
    if z3.is_rational_value(r):
        return Fraction(r.numerator_as_long(), r.denominator_as_long())
    if z3.is_algebraic_value(r):
        a = r.approx(30)
        return Fraction(a.numerator_as_long(), a.denominator_as_long())
    if z3.is_int_value(r):
        return r.as_long()
    if z3.is_true(r):
        return True
    if z3.is_false(r):
        return False
    return None

def purify(assumptions, extra):
    """replace every uninterpreted-function application by a fresh constant (drops congruence: weaker assumptions,
    so an `unsat` answer remains a valid proof; `sat` answers of the purified problem are NOT used)"""
    cache = {}
    def walk(e):
        if z3.is_app(e):
            if e.num_args() == 0:
                return e
            args = [walk(c) for c in e.children()]
            if e.decl().kind() == z3.Z3_OP_UNINTERPRETED:
                key = (e.decl().name(), tuple(a.get_id() for a in args))
                if key not in cache:
                    cache[key] = z3.Real('uf!%s!%d' % (e.decl().name(), len(cache)))
                return cache[key]
            return e.decl()(*args)
        return e
    return [walk(a) for a in assumptions], [walk(a) for a in extra]

def smt_check(assumptions, extra, timeout_ms, want_model_vars=None, tactics=('default', 'nlsat')):
    """returns (status 'unsat'|'sat'|'unknown', model dict or None, solver name, seconds)"""
    t0 = time.time()
    last = 'unknown'
    for tac in tactics:
        if tac == 'default':
            s = z3.Solver()
        elif tac == 'nlsat':
            s = z3.Tactic('qfnra-nlsat').solver()
        elif tac == 'eqs+nlsat':
            s = z3.Then('simplify', 'solve-eqs', 'elim-uncnstr', 'simplify', 'qfnra-nlsat').solver()
        elif tac == 'purify+nlsat':
            assumptions, extra = purify(assumptions, extra)
            s = z3.Then('simplify', 'solve-eqs', 'simplify', 'qfnra-nlsat').solver()
        else:
            s = z3.Tactic(tac).solver()
        s.set('timeout', int(timeout_ms))
        for a in assumptions:
            s.add(a)
        for a in extra:
            s.add(a)
        try:
            r = s.check()
        except z3.Z3Exception as e:
            r = z3.unknown
        if r == z3.unsat:
            return 'unsat', None, 'z3-%s(%s)' % (z3.get_version_string(), tac), time.time() - t0
        if r == z3.sat and tac == 'purify+nlsat':
            last = 'unknown'
            continue
        if r == z3.sat:
            m = s.model()
            mv = {}
            for name, v in (want_model_vars or {}).items():
                val = model_value(m, v)
                if val is not None:
                    mv[name] = val
            return 'sat', mv, 'z3-%s(%s)' % (z3.get_version_string(), tac), time.time() - t0
        last = 'unknown'
    return last, None, 'z3', time.time() - t0

def smt_external(assumptions, extra, timeout_s):
    """second opinion from the installed z3 4.8.12 and cvc5 binaries (via SMT-LIB)"""
    s = z3.Solver()
    for a in assumptions:
        s.add(a)
    for a in extra:
        s.add(a)
    txt = s.to_smt2()
    out = []
    with tempfile.NamedTemporaryFile('w', suffix='.smt2', delete=False, dir=os.environ.get('GM2V_WORK', '/verif/.work')) as f:
        f.write(txt)
        path = f.name
    try:
        for name, cmd in (('z3-4.8.12', ['/usr/bin/z3', '-T:%d' % timeout_s, path]),
                          ('cvc5', ['cvc5', '--tlimit=%d' % (timeout_s * 1000), path])):
            t0 = time.time()
            try:
                r = subprocess.run(cmd, capture_output=True, text=True, timeout=timeout_s + 5)
                ans = r.stdout.strip().split('\n')[0] if r.stdout.strip() else 'unknown'
            except subprocess.TimeoutExpired:
                ans = 'unknown'
            if ans in ('unsat', 'sat'):
                return ans, name, time.time() - t0
    finally:
        try:
            os.unlink(path)
        except OSError:
            pass
    return 'unknown', 'z3-4.8.12+cvc5', 0.0

class Ctx:
    """handed to every obligation function"""
    def __init__(self, world, tier, seed, oid):
        self.w = world
        self.tier = tier
        self.seed = seed
        self.oid = oid
        self.results = []
        self.vars = {}
        self.notes = []
        self.rule_counts = {}
        self.timeout_ms = int((20000 if tier == 'quick' else 120000) * float(os.environ.get('GM2V_TIMEOUT_SCALE', '1')))
        self.assumed = []      # textual list of assumptions used (axioms, callee contracts)
        self._vac_seen = set()
        self.pin_defaults = {}

    def _fill(self, env, expr, numeval):
        e = dict(env)
        for n in numeval.free_vars(expr):
            if n not in e and n not in numeval.CONSTS and n in self.pin_defaults:
                e[n] = self.pin_defaults[n]
        return e

    def real(self, name):
        v = z3.Real(name)
        self.vars[name] = v
        return v

    def reals(self, names):
        return [self.real(n) for n in names.split()]

    def assume_note(self, text):
        if text not in self.assumed:
            self.assumed.append(text)

    def merge_rules(self, interp):
        for k, v in interp.rule_counts.items():
            self.rule_counts[k] = self.rule_counts.get(k, 0) + v

    def prove(self, sub, assumptions, claim, kind='post', timeout_ms=None, model_vars=None, external=True,
              check_vacuity=True, tactics=('default', 'nlsat'), pins=None):
        """discharge `assumptions ==> claim`. Records a GoalResult; returns status."""
        gid = self.oid + ('.' + sub if sub else '')
        tmo = timeout_ms or self.timeout_ms
        assumptions = [to_z3(a) for a in assumptions]
        if isinstance(claim, bool):
            claim = z3.BoolVal(claim)
        t0 = time.time()
        vkey = tuple(sorted(a.get_id() for a in assumptions))
        if check_vacuity and vkey not in self._vac_seen:
            self._vac_seen.add(vkey)
            st, _, _, _ = smt_check(assumptions, [], min(tmo, 4000), tactics=('nlsat',))
            if st == 'unsat':
                self.results.append(GoalResult(gid, ERROR, 'B', time.time() - t0,
                                               'vacuous: assumptions are contradictory', kind=kind))
                return ERROR
        mv = dict(self.vars)
        if model_vars:
            mv.update(model_vars)
        # probes: both sides of every equality in the claim, evaluated in a counterexample (so that a replay can check "the real code returns
        # L at this input, the contract demands R")
        eqs = []
        def _eqs(t, depth=0):
            if depth > 6 or len(eqs) >= 40:
                return
            if z3.is_and(t):
                for c in t.children():
                    _eqs(c, depth + 1)
            elif z3.is_eq(t) and t.arg(0).sort() == z3.RealSort():
                eqs.append((t.arg(0), t.arg(1)))
        try:
            _eqs(claim)
        except Exception:
            eqs = []
        for i, (l_, r_) in enumerate(eqs):
            mv['_eq%d.l' % i] = l_
            mv['_eq%d.r' % i] = r_
        # every input symbol of the goal gets a value in a counterexample (not only the variables the contract registered)
        try:
            seen_ids, todo, n_c = set(), [claim] + list(assumptions), 0
            while todo and n_c < 600:
                t = todo.pop()
                if t.get_id() in seen_ids:
                    continue
                seen_ids.add(t.get_id())
                if z3.is_const(t) and t.decl().kind() == z3.Z3_OP_UNINTERPRETED and t.sort() == z3.RealSort():
                    nm = t.decl().name()
                    if nm not in mv:
                        mv[nm] = t
                        n_c += 1
                else:
                    todo.extend(t.children())
        except Exception:
            pass
        st, model, solver, secs = smt_check(assumptions, [z3.Not(claim)], tmo, mv, tactics=tactics)
        if st == 'unknown' and pins:
            # refutation search: pin the inputs to candidate points; a pinned query is easy for the solver.
            # (only 'sat' answers are used: they are genuine counterexamples of the unpinned goal)
            for pin in pins:
                pin_eqs = [self.vars[k] == to_z3(v) if k in self.vars else k == to_z3(v) for k, v in pin.items()]
                st3, model3, solver3, _ = smt_check(assumptions + pin_eqs, [z3.Not(claim)], 3000, mv, tactics=('default',))
                if st3 == 'sat':
                    st, model, solver = 'sat', model3, solver3 + '+pinned'
                    break
        if st == 'unknown' and pins:
            # numeric refutation under the standard interpretation of the uninterpreted symbols (gm2v/numeval.py)
            from . import numeval
            for pin in pins:
                try:
                    env = {(k if isinstance(k, str) else str(k)): v for k, v in pin.items()}
                    conds = []
                    skip = False
                    for a in assumptions:
                        try:
                            if not numeval.evb(a, self._fill(env, a, numeval), None):
                                skip = True
                                break
                        except numeval.CannotEval as ce:
                            if '!' in str(ce):
                                continue      # enclosure axiom with an existential remainder: true in the standard model
                            raise
                    if skip:
                        continue
                    bad, envf = numeval.refute_at([], claim, self._fill(env, claim, numeval))
                    if bad:
                        st, solver = 'sat', 'numeric evaluation (mpmath, 40 digits) at a pinned point'
                        model = {k: (Fraction(v) if isinstance(v, (int, float, Fraction)) else v) for k, v in envf.items() if not isinstance(v, bool)}
                        break
                except (numeval.CannotEval, numeval.Margin):
                    continue
        if st == 'unknown' and external:
            st2, solver2, secs2 = smt_external(assumptions, [z3.Not(claim)], max(5, int(tmo / 1000)))
            if st2 == 'unsat':
                st, solver = 'unsat', solver2
            elif st2 == 'sat':
                st, solver, model = 'sat', solver2, None
        if st == 'unsat' and self.tier == 'thorough' and solver.startswith('z3-') and '4.8.12' not in solver:
            # thorough tier: second opinion from an independent solver binary (z3 4.8.12 / cvc5) on the same query
            st2, solver2, _ = smt_external(assumptions, [z3.Not(claim)], 20)
            if st2 == 'unsat':
                solver += ' + confirmed by ' + solver2
            elif st2 == 'sat':
                self.results.append(GoalResult(gid, ERROR, 'B', time.time() - t0, detail='solver disagreement: %s says unsat, %s says sat (A-SMT violated)' % (solver, solver2), solver=solver, kind=kind))
                return ERROR
            else:
                solver += ' (second solver: unknown within 20 s)'
        secs = time.time() - t0
        if st == 'unsat':
            self.results.append(GoalResult(gid, PROVED, 'B', secs, solver=solver, kind=kind))
            return PROVED
        if st == 'sat':
            md = None
            if model is not None:
                viol = None
                for i, (l_, r_) in enumerate(eqs):
                    a_, b_ = model.get('_eq%d.l' % i), model.get('_eq%d.r' % i)
                    if a_ is not None and b_ is not None and a_ != b_:
                        viol = {'index': i, 'code_side': float(a_), 'contract_side': float(b_), 'code_side_term': str(l_)[:160], 'contract_side_term': str(r_)[:160]}
                        break
                model = {k: v for k, v in model.items() if not str(k).startswith('_eq')}
                md = {k: (str(v) if not isinstance(v, Fraction) else '%s' % (v,)) for k, v in model.items()}
                md['_float'] = {k: float(v) for k, v in model.items() if isinstance(v, (Fraction, int)) and not isinstance(v, bool)}
                if viol is not None:
                    md['_violated_equality'] = viol
            self.results.append(GoalResult(gid, FAILED, 'B', secs, detail='counterexample', model=md, solver=solver, kind=kind))
            return FAILED
        self.results.append(GoalResult(gid, UNDECIDED, 'B', secs, detail='solver answered unknown / timeout', solver=solver, kind=kind))
        return UNDECIDED

    def prove_ring(self, sub, pairs, subs=None, kind='post', fallback=None, relations=None):
        """prove a conjunction of equalities lhs == rhs by ring normalisation (sympy); pairs: list of (lhs, rhs) z3 terms"""
        from . import ring
        gid = self.oid + ('.' + sub if sub else '')
        t0 = time.time()
        try:
            if relations:
                ok = all(ring.identity_mod(z3real(a), z3real(b), relations) for a, b in pairs)
            else:
                ok = all(ring.identity(z3real(a), z3real(b), subs) for a, b in pairs)
        except ring.NotRing as e:
            ok = None
        secs = time.time() - t0
        if ok:
            solver = 'ring normalisation (sympy %s)' % __import__('sympy').__version__
            if self.tier == 'thorough' and not relations:
                # thorough tier: the same identities put to z3 (an independent decision procedure) with a short timeout
                try:
                    goal = z3.And(*[z3real(a) == z3real(b) for a, b in pairs])
                    if subs:
                        goal = z3.substitute(goal, *[(k, v) for k, v in subs.items()])
                    st2, _, sv2, _ = smt_check([], [z3.Not(goal)], 5000, tactics=('default',))
                    if st2 == 'unsat':
                        solver += ' + confirmed by ' + sv2
                    elif st2 == 'sat':
                        # x/0 has an arbitrary value for z3, so a model with a vanishing denominator is no disagreement: report, do not fail
                        solver += ' (z3 finds a model, presumably with a vanishing denominator: side obligations cover those)'
                    else:
                        solver += ' (z3: unknown within 5 s)'
                except Exception:
                    pass
            self.results.append(GoalResult(gid, PROVED, 'B', secs, solver=solver, kind=kind))
            return PROVED
        if fallback is not None:
            return fallback()
        if ok is False and relations:
            ok = None
        if ok is False:
            # the normal form of lhs - rhs is a non-zero rational function: exhibit a point where it does not vanish
            from . import ring as _r
            wit = _r.witness([(z3real(a), z3real(b)) for a, b in pairs], subs)
            self.results.append(GoalResult(gid, FAILED, 'B', secs, detail='not an identity: lhs - rhs has a non-zero normal form; non-vanishing at %s (uninterpreted loop functions as free values)' % (wit,),
                                           model={'_free_algebra_point': wit}, solver='ring normalisation (sympy)', kind=kind))
            return FAILED
        self.results.append(GoalResult(gid, UNDECIDED, 'B', secs, detail='outside the ring fragment; no SMT fallback given', kind=kind))
        return UNDECIDED

    def record(self, sub, status, backend, seconds, detail='', model=None, solver='', kind='post'):
        gid = self.oid + ('.' + sub if sub else '')
        self.results.append(GoalResult(gid, status, backend, seconds, detail, model, solver, kind))
        return status

    def refute_by_execution(self, thunk_factory, pins, names):
        """run the extracted code concretely (IEEE doubles) at candidate inputs and collect libm domain events.
        Used only to REFUTE side obligations the solver left unknown; every refutation is replayed on the real code."""
        from .interp import Interp
        from .values import EvalError
        events = {}
        for pin in pins or []:
            it = Interp(self.w, mode='float')
            args = [float(pin[n]) for n in names]
            try:
                it.run_single(lambda: thunk_factory(it, args))
            except EvalError:
                continue
            except Exception:
                continue
            for desc, val in it.domain_events:
                events.setdefault(desc, (pin, val))
        return events

    def sides(self, sub, sym, pre, only=None, pins=None, timeout_ms=None, exec_events=None):
        """discharge the side obligations (denominator != 0, sqrt/log domains) of one path"""
        n = 0
        ok = True
        for guards, cond, desc in sym.sides:
            if only is not None and not only(desc):
                continue
            n += 1
            st = self.prove('%s.side%d' % (sub, n), list(pre) + list(guards) + list(sym.axioms), cond if is_sym(cond) else z3.BoolVal(bool(cond)),
                            kind='side:' + desc, check_vacuity=False, pins=pins, timeout_ms=timeout_ms)
            if st == UNDECIDED and exec_events and desc in exec_events:
                pin, val = exec_events[desc]
                r = self.results[-1]
                r.status = FAILED
                r.detail = 'solver unknown; refuted by concrete execution of the extracted code: %s with argument %r' % (desc, val)
                r.solver = 'concrete execution (float interpreter)'
                r.model = {'_float': {k: float(v) for k, v in pin.items()}}
                st = FAILED
            ok = ok and st == PROVED
        return ok

# ------------------------------------------------------------------------------------------
class Obligation:
    def __init__(self, oid, func, fns, tier, backend, doc, replay=None, prop=None):
        self.oid, self.func, self.fns, self.tier, self.backend, self.doc = oid, func, fns, tier, backend, doc
        self.replay = replay
        self.prop = prop

REGISTRY = {}

def obligation(oid, fns=(), tier='quick', backend='B', replay=None):
    """decorator: register an obligation. fns: the real functions (repo-relative file, name) it puts under contract"""
    def deco(f):
        prop = oid.split('.')[0]
        REGISTRY.setdefault(prop, []).append(Obligation(oid, f, list(fns), tier, backend, (f.__doc__ or '').strip(), replay, prop))
        return f
    return deco

def _worker(ob, tier, seed, repo, q):
    try:
        from .world import World
        t0 = time.time()
        w = get_world(repo)
        ctx = Ctx(w, tier, seed, ob.oid)
        try:
            ob.func(ctx)
        except Exception as e:
            from .values import EvalError, UninitRead
            from .cxx import ParseError
            if isinstance(e, UninitRead):
                # undefined behaviour in the real code (the value depends on what the stack held before): a violation, not an extraction problem
                ctx.results.append(GoalResult(ob.oid + '.no_uninitialised_read', FAILED, ob.backend, time.time() - t0,
                                              'symbolic execution of the real code reaches a %s' % e, model={'_uninitialised': str(e)}, solver='interpreter (definite initialisation)'))
            else:
                kind = 'extraction' if isinstance(e, (EvalError, ParseError)) else 'internal'
                ctx.results.append(GoalResult(ob.oid, ERROR, ob.backend, time.time() - t0,
                                              '%s error: %s\n%s' % (kind, e, traceback.format_exc()[-1500:])))
        q.put(dict(oid=ob.oid, results=[r.to_dict() for r in ctx.results], notes=ctx.notes,
                   rules=ctx.rule_counts, assumed=ctx.assumed, seconds=time.time() - t0))
    except BaseException as e:
        q.put(dict(oid=ob.oid, results=[GoalResult(ob.oid, ERROR, ob.backend, 0, 'worker crashed: %r' % (e,)).to_dict()],
                   notes=[], rules={}, assumed=[], seconds=0))

_WORLD = {}
def get_world(repo=None):
    from .world import World, REPO
    repo = repo or REPO
    if repo not in _WORLD:
        _WORLD[repo] = World(repo)
    return _WORLD[repo]

def run_obligations(obs, tier, seed, repo=None, jobs=None, hard_timeout=None, _retry=False):
    """run each obligation in its own process (fork); returns list of result dicts"""
    jobs = jobs or min(16, os.cpu_count() or 4)
    hard_timeout = hard_timeout or (240 if tier == 'quick' else 1800)
    get_world(repo)     # parse once, children inherit by fork
    pending = list(obs)
    running = []
    out = []
    ctxmp = multiprocessing.get_context('fork')
    while pending or running:
        while pending and len(running) < jobs:
            ob = pending.pop(0)
            q = ctxmp.Queue()
            p = ctxmp.Process(target=_worker, args=(ob, tier, seed, repo, q))
            p.start()
            running.append((ob, p, q, time.time()))
        time.sleep(0.02)
        still = []
        for ob, p, q, t0 in running:
            got = None
            try:
                got = q.get_nowait()
            except Exception:
                got = None
            if got is not None:
                p.join(5)
                if p.is_alive():
                    p.kill()
                out.append(got)
                continue
            if not p.is_alive():
                try:
                    got = q.get(timeout=1)
                    out.append(got)
                except Exception:
                    out.append(dict(oid=ob.oid, results=[GoalResult(ob.oid, ERROR, ob.backend, time.time() - t0,
                               'worker died (exit %s)' % p.exitcode).to_dict()], notes=[], rules={}, assumed=[], seconds=time.time() - t0))
                continue
            if time.time() - t0 > hard_timeout:
                p.kill()
                p.join()
                out.append(dict(oid=ob.oid, results=[GoalResult(ob.oid, UNDECIDED, ob.backend, time.time() - t0,
                           'hard timeout %ds' % hard_timeout).to_dict()], notes=[], rules={}, assumed=[], seconds=time.time() - t0))
                continue
            still.append((ob, p, q, t0))
        running = still
    # a timeout under load is not a verdict: obligation groups left undecided by a timeout are re-run once, few at a time, with a
    # three times longer budget (a machine running several checks at once must not turn "proved" into "undecided")
    if not _retry:
        slow = [d['oid'] for d in out if any(r['status'] == UNDECIDED and 'timeout' in (r.get('detail') or '') for r in d['results'])]
        if slow and len(slow) <= 24:
            old = os.environ.get('GM2V_TIMEOUT_SCALE')
            os.environ['GM2V_TIMEOUT_SCALE'] = '3'
            try:
                again = run_obligations([ob for ob in obs if ob.oid in slow], tier, seed, repo=repo, jobs=4,
                                        hard_timeout=3 * hard_timeout, _retry=True)
            finally:
                if old is None:
                    del os.environ['GM2V_TIMEOUT_SCALE']
                else:
                    os.environ['GM2V_TIMEOUT_SCALE'] = old
            redo = {d['oid']: d for d in again}
            out = [redo.get(d['oid'], d) for d in out]
    order = {ob.oid: i for i, ob in enumerate(obs)}
    out.sort(key=lambda d: order.get(d['oid'], 0))
    return out

# ------------------------------------------------------------------------------------------
# back end A helper
def _bits_to_double(b):
    import struct
    return struct.unpack('>d', int(b, 2).to_bytes(8, 'big'))[0]

def cbmc_contract(ctx, sub, fn, file, clauses, callee_contracts=None, externs=(), checks=None, timeout=None,
                  nargs=None, extra_flags=(), replace=(), ghosts=(), harness_extra='', pick=None):
    """enforce `clauses` (verbatim __CPROVER_ clauses) on the real function fn (extracted to C on this run).
    callee_contracts: name -> clauses for callees that are replaced by their contract (externs)."""
    from . import cprint, cbmc, native
    t0 = time.time()
    fds = ctx.w.find(fn, file)
    if nargs is not None:
        fds = [f for f in fds if len(f.params) == nargs]
    if pick is not None:
        fds = [f for f in fds if pick(f)]
    if len(fds) != 1:
        ctx.record(sub, ERROR, 'A', 0, 'extraction: %d definitions of %s in %s' % (len(fds), fn, file))
        return None
    fd = fds[0]
    contracts = dict(callee_contracts or {})
    cp = cprint.CPrinter(ctx.w, contracts=contracts, externs=set(externs) | set((callee_contracts or {}).keys()))
    cp.ghost_fns = set(ghosts)
    m = cp.mangle(fd)
    contracts[m] = clauses
    try:
        cp.add_function(fd)
        decls = []
        args = []
        for i, p in enumerate(fd.params):
            cty = cp.ctype(p.type, for_param=True)
            nm = 'in_%s' % (p.name or i)
            if p.type.ptr and not p.type.ref and not cty.startswith('const struct'):
                decls.append('%s %s;' % (cty, nm))      # a pointer parameter: the contract's is_fresh() describes what it points to
                args.append(nm)
            elif cty.endswith('*') and not cty.startswith('const struct'):
                base = cty[:-1].strip()
                decls.append('%s %s;' % (base, nm))
                args.append('&' + nm)
            elif cty.startswith('const struct'):
                decls.append('%s %s;' % (cty, nm))
                args.append(nm)
            else:
                decls.append('%s %s;' % (cty, nm))
                args.append(nm)
        harness = 'void harness(void) { %s %s(%s); }' % (' '.join(decls), m, ', '.join(args))
        src = cp.source(extra_decls=harness_extra, harness=harness)
    except (cprint.PrintError, Exception) as e:
        from .values import EvalError
        ctx.record(sub, ERROR, 'A', time.time() - t0, 'extraction: %s: %s' % (type(e).__name__, e))
        return None
    for k, v in cp.rules.items():
        ctx.rule_counts['A:' + k] = ctx.rule_counts.get('A:' + k, 0) + v
    wd = native.workdir('cbmc')
    try:
        rep = sorted(set(cp.extern_mangled.values()))
        res = cbmc.verify(wd, sub.replace('/', '_') or fn, src, 'harness', enforce=m, replace=list(rep) + list(replace),
                          checks=checks or ('--bounds-check', '--pointer-check', '--div-by-zero-check'),
                          timeout=int((timeout or (120 if ctx.tier == 'quick' else 900)) * float(os.environ.get('GM2V_TIMEOUT_SCALE', '1'))), extra=extra_flags)
    finally:
        native.cleanup(wd)
    secs = time.time() - t0
    if res.status == 'error':
        ctx.record(sub, ERROR, 'A', secs, 'tool: ' + res.log[:1500])
        return res
    if res.status == 'undecided':
        ctx.record(sub, UNDECIDED, 'A', secs, res.log)
        return res
    per = secs / max(1, len(res.props))
    for name, desc, st in res.props:
        gid = '%s.%s' % (sub, name) if sub else name
        if st == 'SUCCESS':
            ctx.record(gid, PROVED, 'A', per, solver='cbmc-6.11', kind='cbmc:' + (desc or '')[:80])
        elif st == 'FAILURE':
            model = None
            tr = res.trace_inputs.get(name)
            if tr:
                model = {'_cbmc': tr}
            p = [x for x in res.failed if x.get('property') == name][0]
            vals = {}
            for step in p.get('trace', []):
                if step.get('stepType') == 'assignment' and step.get('sourceLocation', {}).get('function') == 'harness':
                    lhs = step.get('lhs', '')
                    v = step.get('value', {})
                    if lhs.startswith('in_') and 'binary' in v and len(v['binary']) == 64 and v.get('type', '') == 'double':
                        vals[lhs[3:]] = _bits_to_double(v['binary'])
                    elif lhs.startswith('in_') and 'data' in v:
                        try:
                            vals[lhs[3:]] = float(v['data'])
                        except ValueError:
                            pass
            model = {'_float': vals, '_clauses': clauses, '_fn': fn, '_file': file}
            ctx.record(gid, FAILED, 'A', per, detail='cbmc: %s' % desc, model=model, solver='cbmc-6.11', kind='cbmc:' + (desc or '')[:80])
        else:
            ctx.record(gid, UNDECIDED, 'A', per, detail='cbmc status %s' % st, solver='cbmc-6.11')
    return res

def replay_cbmc_scalar(include_cpp, link_cpp):
    """generic native replay for back end A failures on scalar functions: call the real function on the
    counterexample inputs and evaluate the contract's ensures clauses in C++"""
    def rep(model, wd):
        from . import native
        import re as _re
        vals = model.get('_float') or {}
        fn = model.get('_fn')
        clauses = model.get('_clauses') or []
        if not vals or not fn:
            return None, 'no input values in the cbmc trace'
        w = get_world()
        fds = [f for f in w.find(fn, model.get('_file'))]
        fd = [f for f in fds if len(f.params) == len(vals)] or fds
        fd = fd[0]
        names = [p.name for p in fd.params]
        if any(n not in vals for n in names):
            return None, 'trace does not bind all parameters: %s' % vals
        posts = []
        for c in clauses:
            m = _re.match(r'__CPROVER_ensures\((.*)\)\s*$', c, _re.S)
            if m:
                e = m.group(1)
                # a ==> b   ->   (!(a) || (b))
                if '==>' in e:
                    a, b2 = e.split('==>', 1)
                    e = '(!(%s) || (%s))' % (a, b2)
                e = e.replace('__CPROVER_return_value', 'r').replace('__CPROVER_isinfd', 'std::isinf').replace('isnan', 'std::isnan').replace('isinf(', 'std::isinf(').replace('std::std::', 'std::').replace('fabs', 'std::fabs')
                posts.append(e)
        args = ', '.join('a[%d]' % i for i in range(len(names)))
        binds = ' '.join('double %s = a[%d];' % (n, i) for i, n in enumerate(names))
        expr = '([&]{ %s double r = %s(%s); bool ok = true; %s return ok ? r : (std::printf("POSTFAIL\\n"), r); })()' % (
            binds, fn, args, ' '.join('ok = ok && (%s);' % p for p in posts))
        exe = native.build_scalar_driver(wd, include_cpp, link_cpp, [(fn, expr, len(names))])
        import subprocess
        inp = '%s %d %s\n' % (fn, len(names), ' '.join(float(vals[n]).hex() for n in names))
        r = subprocess.run([exe], input=inp, capture_output=True, text=True, timeout=60)
        bad = 'POSTFAIL' in r.stdout
        return bad, 'inputs %s -> real code output: %s' % (vals, r.stdout.strip().replace('\n', ' | '))
    return rep
