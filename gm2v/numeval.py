"""Numeric refutation: evaluate a goal at a concrete point under the STANDARD interpretation of the
uninterpreted symbols (sqrt, ln, sin, ..., Li2, Cl2) in 40-digit arithmetic.  The standard interpretation
satisfies every assumed axiom, so a point where all preconditions/path conditions hold and the claim is
false by a clear margin is a genuine counterexample of the goal.  Only used after the solver answered
`unknown`; every refutation is then replayed on the real code."""
import mpmath
import z3
from fractions import Fraction

mpmath.mp.dps = 40

class CannotEval(Exception):
    pass

CONSTS = {
    'c_PI': lambda: mpmath.pi, 'c_SQRT2': lambda: mpmath.sqrt(2), 'c_ISQRT2': lambda: 1 / mpmath.sqrt(2),
    'c_SQRT3_5': lambda: mpmath.sqrt(mpmath.mpf(3) / 5), 'c_SQRT3_20': lambda: mpmath.sqrt(mpmath.mpf(3) / 20),
    'c_SQRT3_10': lambda: mpmath.sqrt(mpmath.mpf(3) / 10), 'c_SQRT2_5': lambda: mpmath.sqrt(mpmath.mpf(2) / 5),
    'c_SQRT3': lambda: mpmath.sqrt(3),
}

def _uf(name, args):
    a = args
    try:
        if name == 'sqrt':
            if a[0] < 0:
                raise CannotEval('sqrt of negative')
            return mpmath.sqrt(a[0])
        if name == 'ln':
            if a[0] <= 0:
                raise CannotEval('ln of non-positive')
            return mpmath.log(a[0])
        if name == 'exp':
            return mpmath.exp(a[0])
        if name == 'sin':
            return mpmath.sin(a[0])
        if name == 'cos':
            return mpmath.cos(a[0])
        if name == 'asin':
            if abs(a[0]) > 1:
                raise CannotEval('asin domain')
            return mpmath.asin(a[0])
        if name == 'acos':
            if abs(a[0]) > 1:
                raise CannotEval('acos domain')
            return mpmath.acos(a[0])
        if name == 'atan':
            return mpmath.atan(a[0])
        if name == 'atan2':
            return mpmath.atan2(a[0], a[1])
        if name == 'pow':
            if a[0] <= 0:
                raise CannotEval('pow base')
            return mpmath.power(a[0], a[1])
        if name == 'fmod':
            return mpmath.fmod(a[0], a[1])
        if name == 'Li2':
            return mpmath.re(mpmath.polylog(2, a[0]))
        if name == 'Cl2':
            return mpmath.clsin(2, a[0])
    except (ValueError, ZeroDivisionError) as e:
        raise CannotEval(str(e))
    raise CannotEval('uninterpreted function %s has no standard interpretation' % name)

TOL = mpmath.mpf(10) ** -25

def ev(e, env, extra_ufs=None):
    """returns mpf for arithmetic terms, (bool, margin) handled by evb for formulas"""
    if z3.is_rational_value(e):
        return mpmath.mpf(e.numerator_as_long()) / e.denominator_as_long()
    if z3.is_int_value(e):
        return mpmath.mpf(e.as_long())
    if z3.is_algebraic_value(e):
        a = e.approx(40)
        return mpmath.mpf(a.numerator_as_long()) / a.denominator_as_long()
    if z3.is_const(e) and e.decl().kind() == z3.Z3_OP_UNINTERPRETED:
        n = e.decl().name()
        if n in env:
            v = env[n]
            if isinstance(v, Fraction):
                return mpmath.mpf(v.numerator) / v.denominator
            return mpmath.mpf(v)
        if n in CONSTS:
            return CONSTS[n]()
        raise CannotEval('free variable %s' % n)
    k = e.decl().kind()
    ch = e.children()
    if k == z3.Z3_OP_ADD:
        return sum((ev(c, env, extra_ufs) for c in ch), mpmath.mpf(0))
    if k == z3.Z3_OP_SUB:
        r = ev(ch[0], env, extra_ufs)
        for c in ch[1:]:
            r -= ev(c, env, extra_ufs)
        return r
    if k == z3.Z3_OP_MUL:
        r = mpmath.mpf(1)
        for c in ch:
            r *= ev(c, env, extra_ufs)
        return r
    if k == z3.Z3_OP_UMINUS:
        return -ev(ch[0], env, extra_ufs)
    if k == z3.Z3_OP_DIV:
        d = ev(ch[1], env, extra_ufs)
        if d == 0:
            raise CannotEval('division by zero')
        return ev(ch[0], env, extra_ufs) / d
    if k == z3.Z3_OP_POWER:
        b, x = ev(ch[0], env, extra_ufs), ev(ch[1], env, extra_ufs)
        return mpmath.power(b, x)
    if k == z3.Z3_OP_ITE:
        c = evb(ch[0], env, extra_ufs)
        return ev(ch[1], env, extra_ufs) if c else ev(ch[2], env, extra_ufs)
    if k == z3.Z3_OP_TO_REAL:
        return ev(ch[0], env, extra_ufs)
    if k == z3.Z3_OP_UNINTERPRETED:
        n = e.decl().name()
        args = [ev(c, env, extra_ufs) for c in ch]
        if extra_ufs and n in extra_ufs:
            return mpmath.mpf(extra_ufs[n](*args))
        return _uf(n, args)
    raise CannotEval('operator %s' % e.decl().name())

class Margin(Exception):
    pass

def evb(e, env, extra_ufs=None, strict_margin=True):
    """truth value; raises Margin when the decision is closer than the tolerance (undecidable numerically)"""
    if z3.is_true(e):
        return True
    if z3.is_false(e):
        return False
    k = e.decl().kind()
    ch = e.children()
    if k == z3.Z3_OP_AND:
        return all(evb(c, env, extra_ufs) for c in ch)
    if k == z3.Z3_OP_OR:
        return any(evb(c, env, extra_ufs) for c in ch)
    if k == z3.Z3_OP_NOT:
        return not evb(ch[0], env, extra_ufs)
    if k == z3.Z3_OP_IMPLIES:
        return (not evb(ch[0], env, extra_ufs)) or evb(ch[1], env, extra_ufs)
    if k == z3.Z3_OP_ITE:
        return evb(ch[1], env, extra_ufs) if evb(ch[0], env, extra_ufs) else evb(ch[2], env, extra_ufs)
    if k in (z3.Z3_OP_EQ, z3.Z3_OP_DISTINCT) and z3.is_bool(ch[0]):
        r = evb(ch[0], env, extra_ufs) == evb(ch[1], env, extra_ufs)
        return r if k == z3.Z3_OP_EQ else not r
    if k in (z3.Z3_OP_LE, z3.Z3_OP_LT, z3.Z3_OP_GE, z3.Z3_OP_GT, z3.Z3_OP_EQ, z3.Z3_OP_DISTINCT):
        a, b = ev(ch[0], env, extra_ufs), ev(ch[1], env, extra_ufs)
        scale = max(abs(a), abs(b), mpmath.mpf(1) * 0 + mpmath.mpf(10) ** -300)
        d = a - b
        close = abs(d) <= TOL * max(scale, 1)
        if k == z3.Z3_OP_EQ:
            if close:
                if d == 0:
                    return True
                # equal to 25 digits: treat as equal (an exact identity evaluated numerically)
                return True
            return False
        if k == z3.Z3_OP_DISTINCT:
            return not close
        if close and d != 0:
            raise Margin('comparison within numeric tolerance')
        if k == z3.Z3_OP_LE:
            return d <= 0
        if k == z3.Z3_OP_LT:
            return d < 0
        if k == z3.Z3_OP_GE:
            return d >= 0
        return d > 0
    if z3.is_const(e) and e.decl().kind() == z3.Z3_OP_UNINTERPRETED:
        n = e.decl().name()
        if n in env:
            return bool(env[n])
        raise CannotEval('free boolean %s' % n)
    raise CannotEval('formula operator %s' % e.decl().name())

def free_vars(e, acc=None, seen=None):
    acc = acc if acc is not None else set()
    seen = seen if seen is not None else set()
    stack = [e]
    while stack:
        t = stack.pop()
        i = t.get_id()
        if i in seen:
            continue
        seen.add(i)
        if z3.is_const(t) and t.decl().kind() == z3.Z3_OP_UNINTERPRETED:
            acc.add(t.decl().name())
        else:
            stack.extend(t.children())
    return acc

def refute_at(conditions, claim, env, defaults=None, extra_ufs=None):
    """conditions: list of z3 Bool that must hold at the point (pre + path condition; axioms about UFs excluded);
    returns (True, detail) if all conditions hold and the claim is false at env"""
    env = dict(env)
    names = free_vars(claim)
    for c in conditions:
        free_vars(c, names)
    for n in names:
        if n not in env and n not in CONSTS:
            if '!' in n:
                raise CannotEval('existential remainder variable %s' % n)
            if defaults is not None and n in defaults:
                env[n] = defaults[n]
            else:
                raise CannotEval('variable %s not pinned' % n)
    for c in conditions:
        if not evb(c, env, extra_ufs):
            return False, 'a precondition/path condition does not hold at this point'
    ok = evb(claim, env, extra_ufs)
    return (not ok), env
