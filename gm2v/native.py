"""Native replay: compile a small driver that #includes the REAL source file(s) from /repo's
working tree (so that anonymous-namespace functions are reachable without hooks) and evaluate
scalar functions on given inputs.  Used by the bit-exact fidelity guard and by counterexample replay."""
import os, subprocess, shutil, struct, hashlib, tempfile
from .world import REPO

WORK = os.environ.get('GM2V_WORK', '/verif/.work')
CXXFLAGS = ['-O2', '-DNDEBUG', '-std=gnu++14', '-w']

def workdir(tag):
    d = os.path.join(WORK, '%s.%d' % (tag, os.getpid()))
    os.makedirs(d, exist_ok=True)
    return d

def cleanup(d):
    shutil.rmtree(d, ignore_errors=True)

def includes(repo):
    return ['-I%s/include' % repo, '-I%s/src' % repo, '-isystem', '/usr/include/eigen3']

class NativeError(Exception):
    pass

def build_scalar_driver(wd, include_cpp, link_cpp, funcs, repo=None, extra_pre=''):
    """funcs: list of (key, c++ call expression using a[0..n-1], nargs)
    include_cpp: repo-relative .cpp files #included into the driver TU
    link_cpp: repo-relative .cpp files compiled separately and linked"""
    repo = repo or REPO
    src = os.path.join(wd, 'driver.cpp')
    with open(src, 'w') as f:
        f.write('#include <cstdio>\n#include <cstring>\n#include <cstdlib>\n#include <string>\n#include <cmath>\n#include <complex>\n')
        f.write(extra_pre + '\n')
        for c in include_cpp:
            f.write('#include "%s/%s"\n' % (repo, c))
        f.write('using namespace gm2calc;\n')
        f.write('int main() {\n  char name[256]; int n;\n')
        f.write('  while (scanf("%255s %d", name, &n) == 2) {\n    double a[16];\n')
        f.write('    for (int i = 0; i < n; i++) { char buf[64]; if (scanf("%63s", buf) != 1) return 2; a[i] = strtod(buf, nullptr); }\n')
        f.write('    double r = 0; bool ok = false;\n')
        for key, expr, nargs in funcs:
            f.write('    if (!ok && strcmp(name, "%s") == 0 && n == %d) { r = (%s); ok = true; }\n' % (key, nargs, expr))
        f.write('    if (!ok) { printf("? %s\\n", name); } else { printf("%a\\n", r); }\n  }\n  return 0;\n}\n')
    objs = []
    for c in link_cpp:
        o = os.path.join(wd, c.replace('/', '_') + '.o')
        if not os.path.exists(o):
            r = subprocess.run(['g++'] + CXXFLAGS + includes(repo) + ['-c', os.path.join(repo, c), '-o', o],
                               capture_output=True, text=True)
            if r.returncode != 0:
                raise NativeError('compile %s failed:\n%s' % (c, r.stderr[-3000:]))
        objs.append(o)
    exe = os.path.join(wd, 'driver.x')
    r = subprocess.run(['g++'] + CXXFLAGS + includes(repo) + [src] + objs + ['-o', exe], capture_output=True, text=True)
    if r.returncode != 0:
        raise NativeError('driver build failed:\n%s' % r.stderr[-3000:])
    return exe

def run_scalar_driver(exe, calls):
    """calls: list of (key, [float args]) -> list of floats"""
    inp = []
    for key, args in calls:
        inp.append('%s %d %s' % (key, len(args), ' '.join(float(a).hex() for a in args)))
    r = subprocess.run([exe], input='\n'.join(inp) + '\n', capture_output=True, text=True, timeout=300)
    if r.returncode != 0:
        raise NativeError('driver exit %d: %s' % (r.returncode, r.stderr[-2000:]))
    out = []
    for ln in r.stdout.split('\n'):
        if not ln:
            continue
        if ln.startswith('?'):
            raise NativeError('driver: unknown function ' + ln)
        out.append(float.fromhex(ln) if 'nan' not in ln and 'inf' not in ln else float(ln))
    if len(out) != len(calls):
        raise NativeError('driver: %d results for %d calls' % (len(out), len(calls)))
    return out

def same_double(a, b):
    if a != a and b != b:
        return True
    return struct.pack('<d', a) == struct.pack('<d', b)

THDM_SRCS = ['src/THDM/THDM.cpp', 'src/THDM/THDM_mass_eigenstates.cpp', 'src/THDM/THDM_parameters.cpp', 'src/THDM/THDM_problems.cpp',
             'src/SM/SM.cpp', 'src/gm2_mf.cpp', 'src/gm2_numerics.cpp']

def build_program(wd, main_src, link_cpp, repo=None, name='prog'):
    """compile a C++ program (text) against real sources from the working tree"""
    repo = repo or REPO
    src = os.path.join(wd, name + '.cpp')
    with open(src, 'w') as f:
        f.write(main_src.replace('@REPO@', repo))
    objs = []
    procs = []
    for c in link_cpp:
        o = os.path.join(wd, c.replace('/', '_') + '.o')
        if not os.path.exists(o):
            procs.append((c, o, subprocess.Popen(['g++'] + CXXFLAGS + includes(repo) + ['-c', os.path.join(repo, c), '-o', o],
                                                 stdout=subprocess.PIPE, stderr=subprocess.PIPE, text=True)))
        objs.append(o)
    for c, o, p in procs:
        out, err = p.communicate()
        if p.returncode != 0:
            raise NativeError('compile %s failed:\n%s' % (c, err[-3000:]))
    exe = os.path.join(wd, name + '.x')
    r = subprocess.run(['g++'] + CXXFLAGS + includes(repo) + [src] + objs + ['-o', exe], capture_output=True, text=True)
    if r.returncode != 0:
        raise NativeError('program build failed:\n%s' % r.stderr[-3000:])
    return exe

def build_gm2calc(repo=None):
    """compile the command-line program gm2calc.x from the working tree (all library sources + src/gm2calc.cpp), cached by source hash"""
    import glob, hashlib, concurrent.futures
    repo = repo or REPO
    srcs = sorted(glob.glob(os.path.join(repo, 'src', '*.cpp')) + glob.glob(os.path.join(repo, 'src', '*', '*.cpp')))
    hdrs = sorted(glob.glob(os.path.join(repo, 'src', '*.h*')) + glob.glob(os.path.join(repo, 'src', '*', '*.h*')) + glob.glob(os.path.join(repo, 'include', 'gm2calc', '*')))
    h = hashlib.sha1()
    for f in srcs + hdrs:
        h.update(f.encode()); h.update(open(f, 'rb').read())
    cdir = os.path.join(WORK, 'cache', h.hexdigest()[:16])
    exe = os.path.join(cdir, 'gm2calc.x')
    if os.path.exists(exe):
        return exe
    # several checks may run concurrently: one builder at a time, the others wait and then find the finished cache
    import fcntl
    os.makedirs(os.path.join(WORK, 'cache'), exist_ok=True)
    with open(os.path.join(WORK, 'cache.lock'), 'w') as lk:
        fcntl.flock(lk, fcntl.LOCK_EX)
        try:
            return _build_gm2calc_locked(repo, srcs, cdir, exe)
        finally:
            fcntl.flock(lk, fcntl.LOCK_UN)

def _build_gm2calc_locked(repo, srcs, cdir, exe):
    import concurrent.futures
    if os.path.exists(exe):
        return exe
    shutil.rmtree(cdir, ignore_errors=True)      # a half-built directory of an interrupted run
    os.makedirs(cdir, exist_ok=True)
    # keep the cache small
    root = os.path.join(WORK, 'cache')
    for d in sorted((d for d in os.listdir(root) if os.path.join(root, d) != cdir), key=lambda d: os.path.getmtime(os.path.join(root, d)))[:-2]:
        shutil.rmtree(os.path.join(root, d), ignore_errors=True)
    ver = os.path.join(cdir, 'gm2calc')
    os.makedirs(ver, exist_ok=True)
    # gm2_version.h is generated by cmake: take version numbers from CMakeLists
    vh = os.path.join(repo, 'include', 'gm2calc', 'gm2_version.h')
    inc = includes(repo)
    if not os.path.exists(vh):
        with open(os.path.join(ver, 'gm2_version.h'), 'w') as f:
            f.write('#define GM2CALC_VERSION "verif"\n#define GM2CALC_VERSION_MAJOR 2\n#define GM2CALC_VERSION_MINOR 0\n#define GM2CALC_VERSION_RELEASE 0\n')
        inc = ['-I' + cdir] + inc
    def comp(c):
        o = os.path.join(cdir, os.path.relpath(c, repo).replace('/', '_') + '.o')
        r = subprocess.run(['g++'] + CXXFLAGS + inc + ['-c', c, '-o', o], capture_output=True, text=True)
        if r.returncode != 0:
            raise NativeError('compile %s failed:\n%s' % (c, r.stderr[-2000:]))
        return o
    with concurrent.futures.ThreadPoolExecutor(max_workers=int(os.environ.get("GM2V_BUILD_JOBS", "8"))) as ex:
        objs = list(ex.map(comp, srcs))
    r = subprocess.run(['g++'] + objs + ['-o', exe + '.tmp'], capture_output=True, text=True)
    if r.returncode != 0:
        raise NativeError('link failed:\n%s' % r.stderr[-2000:])
    os.rename(exe + '.tmp', exe)                 # the executable appears only when every object is complete
    return exe

def build_against_library(wd, main_src, name='prog', repo=None, exclude=()):
    """compile main_src and link it with ALL library objects built from the working tree (cache shared with build_gm2calc)"""
    repo = repo or REPO
    exe0 = build_gm2calc(repo)
    cdir = os.path.dirname(exe0)
    objs = [os.path.join(cdir, f) for f in os.listdir(cdir) if f.endswith('.o') and not f.endswith('src_gm2calc.cpp.o') and not any(f.endswith(x) for x in exclude)]
    src = os.path.join(wd, name + '.cpp')
    with open(src, 'w') as f:
        f.write(main_src)
    exe = os.path.join(wd, name + '.x')
    inc = includes(repo)
    if os.path.exists(os.path.join(cdir, 'gm2calc', 'gm2_version.h')):
        inc = ['-I' + cdir] + inc
    r = subprocess.run(['g++'] + CXXFLAGS + inc + [src] + objs + ['-o', exe], capture_output=True, text=True)
    if r.returncode != 0:
        raise NativeError('program build failed:\n%s' % r.stderr[-3000:])
    return exe
