"""symbolic model objects: every double/complex/matrix data member becomes a fresh real variable"""
import z3
from .values import Cx, Mat
from .world import strip_ns
from .cxx import Num, Type

def symbolic_fields(ctx=None, overrides=None, prefix='', real_only=None, skip=()):
    """returns a callback for Interp.new_object(cls, symbolic=cb).
    overrides: {field path: value}.  Fields of type int/bool/enum keep their defaults unless overridden."""
    overrides = overrides or {}
    def mk(name):
        v = z3.Real(prefix + name)
        if ctx is not None:
            ctx.vars[prefix + name] = v
        return v
    def cb(path, ty, it):
        if path in overrides:
            return overrides[path]
        if path in skip or path.split('.')[-1] in skip:
            return None
        n = strip_ns(ty.name)
        if ty.ptr:
            return None
        if n == 'double':
            return mk(path)
        if n == 'std::complex':
            if real_only and (path in real_only or path.split('.')[-1] in real_only):
                return Cx(mk(path), 0)
            return Cx(mk(path + '.re'), mk(path + '.im'))
        if n in ('Eigen::Matrix', 'Eigen::Array'):
            r, c = it.const_int(ty.args[1]), it.const_int(ty.args[2])
            cplx = it.type_is_complex(ty.args[0])
            kind = 'matrix' if n == 'Eigen::Matrix' else 'array'
            def el(i, j):
                nm = '%s(%d,%d)' % (path, i, j) if c > 1 else '%s(%d)' % (path, i)
                if cplx:
                    if real_only and (path in real_only or path.split('.')[-1] in real_only):
                        return Cx(mk(nm), 0)
                    return Cx(mk(nm + '.re'), mk(nm + '.im'))
                return mk(nm)
            return Mat(r, c, [[el(i, j) for j in range(c)] for i in range(r)], kind, cplx)
        return None
    return cb
