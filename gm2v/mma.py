"""Reader for the subset of the Wolfram Language used by the reference formula files of the repository (math/*.m): definitions `f[u_, w_] := expr`,
`name = expr`, Module[{locals}, body], lists of rules, `expr //. rules`, + - * / ^, implicit multiplication, function application.  The files are the
repository's own independent statement of the published formulas; they are parsed on every run and evaluated into terms of the verifier (z3) with the same
uninterpreted special functions (ln, Li2, Phi, sqrt) the symbolic execution of the C++ code produces, so that `code == reference formula` is a ring identity.

Dropped / not supported (a construct outside the subset raises MmaError, never a silent skip): patterns other than `x_` and `x__` in definitions with a
sequence argument (T2p[args__] := T2[args, +1] is supported as a special case), conditions, pure functions, strings, parts, any control flow."""
import re
from fractions import Fraction

class MmaError(Exception):
    pass

TOK = re.compile(r'\s*(?:(\d+\.\d*|\.\d+|\d+)|([A-Za-z$][A-Za-z0-9$]*_{0,3})|(//\.|:=|->|[-+*/^()\[\]{},=;]))')

def strip_comments(src):
    out, depth, i = [], 0, 0
    while i < len(src):
        if src.startswith('(*', i):
            depth += 1
            i += 2
        elif src.startswith('*)', i) and depth:
            depth -= 1
            i += 2
        else:
            if not depth:
                out.append(src[i])
            elif src[i] == '\n':
                out.append('\n')
            i += 1
    if depth:
        raise MmaError('unterminated comment')
    return ''.join(out)

def tokenize(src):
    """tokens: ('num', Fraction) | ('id', name) | ('op', s) | ('nl',) -- newlines only at bracket depth 0"""
    src = strip_comments(src)
    toks, depth, i = [], 0, 0
    while i < len(src):
        if src[i] == '\n':
            if depth == 0 and toks and toks[-1][0] != 'nl':
                toks.append(('nl',))
            i += 1
            continue
        if src[i] in ' \t\r':
            i += 1
            continue
        m = TOK.match(src, i)
        if not m or m.start() != i and src[i:m.start()].strip():
            raise MmaError('cannot tokenize at %r' % src[i:i + 30])
        if m.group(1):
            toks.append(('num', Fraction(m.group(1))))
        elif m.group(2):
            toks.append(('id', m.group(2)))
        else:
            op = m.group(3)
            if op in '([{':
                depth += 1
            elif op in ')]}':
                depth -= 1
            toks.append(('op', op))
        i = m.end()
    toks.append(('nl',))
    return toks

# AST: ('num', Fraction) ('sym', name) ('call', head, [args]) ('list', [items]) ('rule', lhs, rhs) ('+', a, b) ('-', a, b) ('*', a, b) ('/', a, b) ('^', a, b) ('neg', a)
#      ('replace', expr, rules)  ('set', lhs, rhs) ('setd', lhs, rhs)
class Parser:
    def __init__(self, toks):
        self.t, self.i = toks, 0

    def peek(self):
        return self.t[self.i]

    def next(self):
        tk = self.t[self.i]
        self.i += 1
        return tk

    def skip_nl(self):
        while self.peek()[0] == 'nl' and self.i < len(self.t) - 1:
            self.i += 1

    def accept(self, op):
        if self.peek() == ('op', op):
            self.i += 1
            return True
        return False

    def expect(self, op):
        if not self.accept(op):
            raise MmaError('expected %r, found %r' % (op, self.peek()))

    def statements(self):
        out = []
        while True:
            self.skip_nl()
            if self.i >= len(self.t) - 1:
                break
            out.append(self.statement())
        return out

    def statement(self):
        e = self.expr(0)
        if self.accept(':='):
            self.skip_nl()
            rhs = self.expr(0)
            e = ('setd', e, rhs)
        elif self.accept('='):
            self.skip_nl()
            rhs = self.expr(0)
            e = ('set', e, rhs)
        self.accept(';')
        return e

    # binding powers
    BP = {'//.': 1, '->': 2, '+': 4, '-': 4, '*': 6, '/': 6, '^': 9}

    def starts_primary(self, tk):
        return tk[0] in ('num', 'id') or tk in (('op', '('), ('op', '{'))

    def expr(self, minbp):
        tk = self.peek()
        if tk == ('op', '-'):
            self.next()
            left = ('neg', self.expr(7))
        elif tk == ('op', '+'):
            self.next()
            left = self.expr(7)
        else:
            left = self.primary()
        while True:
            tk = self.peek()
            if tk[0] == 'op' and tk[1] in self.BP:
                op = tk[1]
                bp = self.BP[op]
                if bp < minbp:
                    break
                self.next()
                self.skip_nl_if_incomplete()
                if op == '^':
                    right = self.expr(bp)          # right associative; the exponent may carry its own sign
                    left = ('^', left, right)
                elif op == '//.':
                    right = self.expr(bp + 1)
                    left = ('replace', left, right)
                elif op == '->':
                    right = self.expr(bp)
                    left = ('rule', left, right)
                else:
                    right = self.expr(bp + 1)
                    left = (op, left, right)
                continue
            if self.starts_primary(tk) and 6 >= minbp:
                right = self.expr(7)                # implicit multiplication
                left = ('*', left, right)
                continue
            break
        return left

    def skip_nl_if_incomplete(self):
        # an operator at the end of a line continues on the next one
        while self.peek()[0] == 'nl' and self.i < len(self.t) - 1:
            self.i += 1

    def primary(self):
        self.skip_nl_if_incomplete()
        tk = self.next()
        if tk[0] == 'num':
            node = ('num', tk[1])
        elif tk[0] == 'id':
            node = ('sym', tk[1])
        elif tk == ('op', '('):
            node = self.expr(0)
            self.expect(')')
        elif tk == ('op', '{'):
            items = []
            if not self.accept('}'):
                while True:
                    items.append(self.statement_in_list())
                    if self.accept('}'):
                        break
                    self.expect(',')
            node = ('list', items)
        else:
            raise MmaError('unexpected token %r' % (tk,))
        while self.peek() == ('op', '['):
            self.next()
            args = []
            if not self.accept(']'):
                while True:
                    args.append(self.compound())
                    if self.accept(']'):
                        break
                    self.expect(',')
            node = ('call', node, args)
        return node

    def compound(self):
        """a; b; c inside brackets (CompoundExpression): ('seq', [statements]) or a single expression"""
        items = [self.statement_in_list()]
        while self.peek() == ('op', ';'):
            self.next()
            self.skip_nl_if_incomplete()
            if self.peek() in (('op', ']'), ('op', ',')):
                break
            items.append(self.statement_in_list())
        return items[0] if len(items) == 1 else ('seq', items)

    def statement_in_list(self):
        e = self.expr(0)
        if self.accept('='):
            return ('set', e, self.expr(0))
        return e

class Definitions:
    """definitions of one file: functions[name] = (params, body) for the GENERAL definition (distinct blank patterns), special[name] = [(argument patterns, body)] for
    definitions with literal arguments (F1C[0] := 4) or repeated blanks (Fa[x_, x_] := ...), values[name] = expr"""
    def __init__(self, src):
        self.functions, self.values, self.seqdefs, self.special = {}, {}, {}, {}
        for st in Parser(tokenize(src)).statements():
            if st[0] == 'setd':
                lhs, rhs = st[1], st[2]
                if lhs[0] == 'sym':
                    self.values[lhs[1]] = rhs          # name := expr (delayed value)
                    continue
                if lhs[0] != 'call' or lhs[1][0] != 'sym':
                    raise MmaError('unsupported delayed definition %r' % (lhs,))
                name = lhs[1][1]
                blanks = [a[1] for a in lhs[2] if a[0] == 'sym' and a[1].endswith('_')]
                if len(blanks) == len(lhs[2]) and len(set(blanks)) == len(blanks):
                    if any(p.endswith('__') for p in blanks):
                        if len(blanks) != 1:
                            raise MmaError('unsupported sequence pattern in %s' % name)
                        self.seqdefs[name] = (blanks[0].rstrip('_'), rhs)
                    elif name in self.functions and len(self.functions[name][0]) != len(blanks):
                        # overloads by arity (FdHp[ms2,md2,mu2,qd,qu] and FdHp[xu,xd,qd,qu]): keyed by name/arity
                        self.functions['%s/%d' % (name, len(blanks))] = ([p.rstrip('_') for p in blanks], rhs)
                    else:
                        self.functions[name] = ([p.rstrip('_') for p in blanks], rhs)
                else:
                    pats = []
                    for a in lhs[2]:
                        if a[0] == 'sym' and a[1].endswith('_') and not a[1].endswith('__'):
                            pats.append(('blank', a[1].rstrip('_')))
                        else:
                            pats.append(('lit', a))
                    self.special.setdefault(name, []).append((pats, rhs))
            elif st[0] == 'set':
                if st[1][0] != 'sym':
                    raise MmaError('unsupported assignment %r' % (st[1],))
                self.values[st[1][1]] = st[2]
            elif st == ('sym', 'Null'):
                pass
            else:
                raise MmaError('unsupported top-level expression %r' % (st,))

    def special_value(self, name, lits):
        """body of the definition name[l1, l2, ...] whose arguments are exactly the given literal ASTs (None if there is none)"""
        for pats, body in self.special.get(name, []):
            if len(pats) == len(lits) and all(p[0] == 'lit' and p[1] == l for p, l in zip(pats, lits)):
                return body
        return None

    def repeated_blank(self, name, shape):
        """(parameter names, body) of the definition whose pattern has the given equality shape, e.g. (0, 0) for f[x_, x_]"""
        for pats, body in self.special.get(name, []):
            if len(pats) == len(shape) and all(p[0] == 'blank' for p in pats):
                names = [p[1] for p in pats]
                if tuple(names.index(n) for n in names) == tuple(shape):
                    return names, body
        return None

def _subst(e, env):
    """substitute symbols by AST nodes (capture is not an issue in these files: locals of Module are substituted before the body is used)"""
    k = e[0]
    if k == 'num':
        return e
    if k == 'sym':
        return env.get(e[1], e)
    if k == 'call':
        return ('call', _subst(e[1], env) if e[1][0] != 'sym' else e[1], [_subst(a, env) for a in e[2]])
    if k == 'list':
        return ('list', [_subst(a, env) for a in e[1]])
    if k == 'neg':
        return ('neg', _subst(e[1], env))
    if k == 'seq':
        return ('seq', [_subst(a, env) for a in e[1]])
    return (k,) + tuple(_subst(a, env) for a in e[1:])

class Evaluator:
    """evaluates an AST into the caller's term algebra.  `symbols`: name -> term (free symbols must all be given, a missing one is an error);
    `functions`: name -> python callable for the special functions (Log, PolyLog, Sqrt, Phi, ...); Pi -> symbols['Pi']"""
    def __init__(self, defs, symbols, functions, const=lambda q: q):
        self.d, self.sym, self.fn, self.const = defs, dict(symbols), dict(functions), const
        self.depth = 0

    def rules_of(self, e):
        if e[0] == 'sym' and e[1] in self.d.values:
            e = self.d.values[e[1]]
        if e[0] != 'list':
            raise MmaError('rules expected, found %r' % (e[0],))
        out = {}
        for r in e[1]:
            if r[0] != 'rule' or r[1][0] != 'sym':
                raise MmaError('unsupported rule %r' % (r,))
            out[r[1][1]] = r[2]
        return out

    def ev(self, e, rules=None):
        """rules: symbol -> AST applied repeatedly (//.) to free symbols"""
        self.depth += 1
        if self.depth > 200:
            raise MmaError('evaluation depth')
        try:
            return self._ev(e, rules or {})
        finally:
            self.depth -= 1

    def _ev(self, e, rules):
        k = e[0]
        if k == 'num':
            return self.const(e[1])
        if k == 'sym':
            n = e[1]
            if n in self.sym:
                return self.sym[n]           # bindings of the caller and function parameters take precedence over the file's replacement rules
            if n in rules:
                return self.ev(rules[n], rules)
            if n in self.d.values:
                return self.ev(self.d.values[n], rules)
            raise MmaError('free symbol %s has no value' % n)
        if k == 'neg':
            return -self.ev(e[1], rules)
        if k in ('+', '-', '*', '/'):
            a, b = self.ev(e[1], rules), self.ev(e[2], rules)
            return a + b if k == '+' else a - b if k == '-' else a * b if k == '*' else a / b
        if k == '^':
            ex = e[2]
            neg = False
            if ex[0] == 'neg':
                ex, neg = ex[1], True
            if ex[0] != 'num' or ex[1].denominator != 1:
                raise MmaError('non-integer power')
            base = self.ev(e[1], rules)
            r = self.const(Fraction(1))
            for _ in range(int(ex[1])):
                r = r * base
            return self.const(Fraction(1)) / r if neg else r
        if k == 'replace':
            r2 = dict(rules)
            r2.update(self.rules_of(e[2]))
            return self.ev(e[1], r2)
        if k == 'call':
            if e[1][0] != 'sym':
                raise MmaError('unsupported head')
            h = e[1][1]
            if h == 'Module':
                loc, body = e[2]
                if loc[0] != 'list':
                    raise MmaError('Module locals')
                env = {}
                for s in loc[1]:
                    if s[0] == 'sym':
                        continue                      # local without initial value: assigned in the body
                    if s[0] != 'set' or s[1][0] != 'sym':
                        raise MmaError('unsupported Module local %r' % (s,))
                    env[s[1][1]] = _subst(s[2], env)
                if body[0] == 'seq':
                    for st in body[1][:-1]:
                        if st[0] != 'set' or st[1][0] != 'sym':
                            raise MmaError('unsupported statement in Module body %r' % (st[0],))
                        env[st[1][1]] = _subst(st[2], env)
                    body = body[1][-1]
                return self.ev(_subst(body, env), rules)
            if h in self.d.seqdefs:
                pname, body = self.d.seqdefs[h]
                # f[args__] := g[args, extra]: splice the argument sequence
                if body[0] != 'call':
                    raise MmaError('unsupported sequence definition %s' % h)
                new_args = []
                for a in body[2]:
                    if a == ('sym', pname):
                        new_args.extend(e[2])
                    else:
                        new_args.append(a)
                return self.ev(('call', body[1], new_args), rules)
            if h in self.d.functions and h not in self.fn:
                params, body = self.d.functions[h]
                if len(params) != len(e[2]):
                    alt = self.d.functions.get('%s/%d' % (h, len(e[2])))
                    if alt is None:
                        raise MmaError('%s called with %d arguments' % (h, len(e[2])))
                    params, body = alt
                # call by value on the term level: arguments are evaluated in the caller's rule context, then bound as symbols
                vals = [self.ev(a, rules) for a in e[2]]
                saved = dict(self.sym)
                try:
                    for p, v in zip(params, vals):
                        self.sym[p] = v
                    inner_rules = {k_: v_ for k_, v_ in rules.items() if k_ not in params}
                    return self.ev(body, inner_rules)
                finally:
                    self.sym = saved
            if h in self.fn:
                return self.fn[h](*[self.ev(a, rules) for a in e[2]])
            raise MmaError('unknown function %s' % h)
        raise MmaError('cannot evaluate %r' % (k,))

def load(path):
    return Definitions(open(path).read())
