"""Mathematical facts (assumption A-SPECFN) used as axioms: series enclosures with explicit
remainder bounds and functional equations of ln, Li2, Cl2.  Every function returns z3 facts
about the uninterpreted symbols ln/Li2/Cl2 *of the given argument term*; the text of each
axiom family used by a run is copied into the evidence."""
from fractions import Fraction
import z3
from .values import to_z3, z3real

def Q(a, b=1):
    return z3.Q(a, b)

_UF = {}
def UF(name, n=1):
    k = (name, n)
    if k not in _UF:
        _UF[k] = z3.Function(name, *([z3.RealSort()] * (n + 1)))
    return _UF[k]

def ln(x):
    return UF('ln')(z3real(x))
def Li2(x):
    return UF('Li2')(z3real(x))
def Cl2(x):
    return UF('Cl2')(z3real(x))

_fresh = [0]
def fresh(prefix):
    _fresh[0] += 1
    return z3.Real('%s!%d' % (prefix, _fresh[0]))

def poly(coeffs, x):
    """Horner: coeffs[0] + coeffs[1] x + ..."""
    r = to_z3(coeffs[-1])
    for c in reversed(coeffs[:-1]):
        r = to_z3(c) + x * r
    return r

def ln_series(x, n, dmax, theta=None):
    """ln(x) for |x-1| <= dmax < 1:  ln(1+d) = sum_{k=1..n} (-1)^(k+1) d^k/k + theta d^(n+1),
    |theta| <= 1/((n+1)(1-dmax)).   [A-SPECFN: Taylor series of ln with geometric tail bound]"""
    x = z3real(x)
    d = x - 1
    dmax = Fraction(dmax)
    th = theta if theta is not None else fresh('th_ln')
    coeffs = [Fraction(0)] + [Fraction((-1) ** (k + 1), k) for k in range(1, n + 1)]
    bound = 1 / (Fraction(n + 1) * (1 - dmax))
    S = poly(coeffs, d)
    dn1 = d
    for _ in range(n):
        dn1 = dn1 * d
    guard = z3.And(d <= to_z3(dmax), d >= -to_z3(dmax))
    fact = z3.Implies(guard, z3.And(ln(x) == S + th * dn1, th <= to_z3(bound), th >= -to_z3(bound)))
    return [fact], 'ln(1+d)=sum_{k<=%d}(-1)^(k+1)d^k/k+theta*d^%d, |theta|<=1/(%d(1-%s)) for |d|<=%s' % (n, n + 1, n + 1, dmax, dmax)

def li2_series(y, n, ymax, theta=None):
    """Li2(y) for |y| <= ymax < 1: Li2(y) = sum_{k=1..n} y^k/k^2 + theta y^(n+1), |theta| <= 1/((n+1)^2 (1-ymax))"""
    y = z3real(y)
    ymax = Fraction(ymax)
    th = theta if theta is not None else fresh('th_li2')
    coeffs = [Fraction(0)] + [Fraction(1, k * k) for k in range(1, n + 1)]
    bound = 1 / (Fraction((n + 1) ** 2) * (1 - ymax))
    S = poly(coeffs, y)
    yn1 = y
    for _ in range(n):
        yn1 = yn1 * y
    guard = z3.And(y <= to_z3(ymax), y >= -to_z3(ymax))
    fact = z3.Implies(guard, z3.And(Li2(y) == S + th * yn1, th <= to_z3(bound), th >= -to_z3(bound)))
    return [fact], 'Li2(y)=sum_{k<=%d}y^k/k^2+theta*y^%d, |theta|<=1/(%d^2(1-%s)) for |y|<=%s' % (n, n + 1, n + 1, ymax, ymax)

def absz(x):
    return z3.If(x >= 0, x, -x)

def within_rel(val_times_den, num, tol):
    """|val*den - num| <= tol*|num|   (i.e. val within relative tol of num/den)"""
    return absz(val_times_den - num) <= to_z3(Fraction(tol)) * absz(num)
