"""Vacuity guard: must-fail canaries.

For every property a small textual change of the real source that breaks it is applied to a scratch copy of src/ and include/ (under
/verif/.work/canary, removed afterwards); the named obligation group is then run against that copy and MUST report a violation (exit 1).
A canary that does not fire means the check has gone vacuous: the run exits 2 (machinery fault), it is never a violation of the property.
The canaries are deliberately crude; the realistic changes are in /verif/seeded."""
import os, re, shutil, subprocess, sys, time

ROOT = os.path.dirname(os.path.dirname(os.path.abspath(__file__)))

def table():
    """property -> (file, exact text (must occur exactly once), replacement, obligation filter)"""
    return {
        'C01': ('src/gm2_ffunctions.cpp', 'return ((x - 1)*(x - 3) + 2*std::log(x))/(2*pow3(x - 1));', 'return ((x - 1)*(x - 3) + 2*std::log(x))/(2*pow3(x - 1)) + 1e-5;', 'G3.def'),
        'C02': ('src/gm2_ffunctions.cpp', 'return (G3(y) - G3(x))/(x - y);', 'return 1.0001*(G3(y) - G3(x))/(x - y);', 'def.generic'),
        'C03': ('src/MSSMNoFV/gm2_1loop.cpp', '- m_chi(i) * BBN_(i, m) * F2N(x(i, m))\n                      / (6 * model.get_MM() * sqr(m_smu(m)));',
                '- m_chi(i) * BBN_(i, m) * F2N(x(i, m))\n                      / (3 * model.get_MM() * sqr(m_smu(m)));', 'amu1LChi0'),
        'C04': ('src/MSSMNoFV/MSSMNoFV_onshell_mass_eigenstates.cpp', 'const double mass_matrix_SvmL = 0.125*(8*ml2(1,1) - 0.6*sqr(g1)*(', 'const double mass_matrix_SvmL = 0.125*(8*ml2(1,1) + 0.6*sqr(g1)*(', 'sfermion_mass_matrices'),
        'C05': ('src/MSSMNoFV/MSSMNoFV_onshell.cpp', '= sqr(MSvmL_pole) + 0.125*(0.6*g12*(vu2 - vd2)', '= sqr(MSvmL_pole) - 0.125*(0.6*g12*(vu2 - vd2)', 'inversion.ml2'),
        'C06': ('src/MSSMNoFV/gm2_1loop.cpp', '+ sqr(gY)*M1*(Iabc(mu, M1, m_slep_R)', '+ sqr(gY)*std::abs(M1)*(Iabc(mu, M1, m_slep_R)', 'flip.delta_mu_correction'),
        'C07': ('src/MSSMNoFV/gm2_uncertainty.cpp', 'return 2.3e-10 + 0.3 * (std::abs(amu_2La_Cha)', 'return 2.2e-10 + 0.3 * (std::abs(amu_2La_Cha)', 'uncertainty_floor'),
        'C08': ('src/THDM/THDM.cpp', '0.5*tb*(lambda7*tb*tb - 3*lambda6));', '0.5*tb*(lambda7*tb*tb - 2*lambda6));', 'lambda_inversion'),
        'C09': ('src/THDM/THDM.cpp', '   case thdm::Yukawa_type::type_X:\n      return -get_tan_beta();\n   case thdm::Yukawa_type::type_Y:\n      return 1.0/get_tan_beta();\n   case thdm::Yukawa_type::aligned:\n      return zeta_l;',
                '   case thdm::Yukawa_type::type_X:\n      return 1.0/get_tan_beta();\n   case thdm::Yukawa_type::type_Y:\n      return 1.0/get_tan_beta();\n   case thdm::Yukawa_type::aligned:\n      return zeta_l;', 'zeta_table'),
        'C10': ('src/THDM/gm2_2loop_B.cpp', 'return pref * res * thdm.cos_beta_minus_alpha * thdm.zetal;', 'return pref * res * (thdm.cos_beta_minus_alpha + 1e-3) * thdm.zetal;', ''),
        'C11': ('src/THDM/gm2_2loop_B.cpp', '   shift(u, 1.0, eps_shift);\n\n   const auto cw4 = cw2*cw2;\n   const auto c0', '\n   const auto cw4 = cw2*cw2;\n   const auto c0', 'domains.YF1'),
        'C12': ('src/gm2_linalg.hpp', '    reorder_svd_errbd<Real,Scalar,M,N>(m, s, u, v, s_errbd, u_errbd, v_errbd);\n    if (u) { u->transposeInPlace(); }', '    reorder_svd_errbd<Real,Scalar,M,N>(m, s, u, v, s_errbd, u_errbd, v_errbd);', 'fs_svd'),
        'C13': ('src/gm2_slha_io.cpp', '   case 1: data.mu = value  ; break;\n   case 2: data.tanb = value; break;', '   case 1: data.tanb = value; break;\n   case 2: data.mu = value  ; break;', 'key_table'),
        'C14': ('src/gm2_slha_io.cpp', '   if (is_integer(value) &&\n       value >= std::numeric_limits<int>::min() &&\n       value <= std::numeric_limits<int>::max()) {',
                '   if (is_integer(value)) {', 'read_integer'),
        'C15': ('src/gm2calc.cpp', 'FORMAT_PCT(100. * amu_2l_B / amu_2l) << "% of 2L result)', 'FORMAT_PCT(100. * amu_2l_B / amu_best) << "% of 2L result)', 'detailed.thdm'),
        'C16': ('src/MSSMNoFV/MSSMNoFV_onshell.cpp', 'WARN_OR_THROW_IF(MW >= MZ   , "MW >= MZ cannot be treated with GM2Calc");', 'WARN_OR_THROW_IF(MW > MZ   , "MW >= MZ cannot be treated with GM2Calc");', 'mssm.check_input'),
        'C17': ('src/MSSMNoFV/MSSMNoFV_onshell_c.cpp', 'return reinterpret_cast<const gm2calc::MSSMNoFV_onshell*>(model)->get_MassB();', 'return reinterpret_cast<const gm2calc::MSSMNoFV_onshell*>(model)->get_MassWB();', 'setter_getter'),
        'C18': ('src/THDM/gm2_uncertainty.cpp', 'const double delta_amu_2L_delta_r = 2e-12;', 'const double delta_amu_2L_delta_r = 1e-12;', ''),
        'C19': ('src/gm2_ffunctions.cpp', 'double Iabc(double a, double b, double c) noexcept {\n   return Ixyz(sqr(a), sqr(b), sqr(c));', 'double Iabc(double a, double b, double c) noexcept {\n   static double last = 0; last += a;\n   return Ixyz(sqr(a), sqr(b), sqr(c)) + 0*last;', 'no_stateful_local_statics'),
        'C20': ('src/SM/SM.cpp', '   return 2*mw/get_g2();', '   return 2*mz/get_g2();', 'ew_relations'),
    }

def run_canary(pid, log=print):
    """returns (ok, info dict). ok None: no canary defined for this property"""
    ent = table().get(pid)
    if not ent or ent[1] is None:
        return None, {'defined': False}
    rel, pat, rep, filt = ent
    src_root = os.environ.get('GM2V_REPO', '/repo')
    work = os.path.join(os.environ.get('GM2V_WORK', os.path.join(ROOT, '.work')), 'canary', pid)
    shutil.rmtree(work, ignore_errors=True)
    t0 = time.time()
    try:
        for d in ('src', 'include'):
            shutil.copytree(os.path.join(src_root, d), os.path.join(work, d))
        p = os.path.join(work, rel)
        txt = open(p).read()
        n = txt.count(pat)
        new = txt.replace(pat, rep)
        if n != 1:
            return False, {'defined': True, 'error': 'canary anchor occurs %d times in %s, expected once (the source changed: update gm2v/canary.py)' % (n, rel)}
        open(p, 'w').write(new)
        env = dict(os.environ, GM2V_REPO=work, GM2V_REPLAY_DIR=os.path.join(os.path.dirname(work), 'replay'))
        cmd = [sys.executable, os.path.join(ROOT, 'gm2v', 'check.py'), pid, 'quick'] + ([filt] if filt else [])
        r = subprocess.run(cmd, capture_output=True, text=True, env=env, timeout=1500)
        fired = r.returncode == 1 and 'VIOLATION property=%s' % pid in r.stdout
        first = next((l for l in r.stdout.splitlines() if l.startswith('VIOLATION')), '')
        return fired, {'defined': True, 'file': rel, 'change': '%s -> %s' % (pat[:60], rep[:60]), 'filter': filt, 'exit': r.returncode, 'fired': fired,
                       'first_violation': first[:200], 'seconds': round(time.time() - t0, 1)}
    finally:
        shutil.rmtree(work, ignore_errors=True)
