"""Program database: every run parses the GM2Calc sources from /repo's current working tree."""
import os, glob, hashlib, pickle
from . import cxx

REPO = os.environ.get('GM2V_REPO', '/repo')

SRC_GLOBS = ['src/*.cpp', 'src/*/*.cpp', 'src/*.hpp', 'src/*/*.hpp', 'src/*.h',
             'include/gm2calc/*.hpp', 'include/gm2calc/*.h']
SKIP = {'slhaea.h'}

def strip_ns(name):
    parts = [p for p in name.split('::') if p not in ('gm2calc', 'detail', 'thdm', '')]
    return '::'.join(parts)

class World:
    def __init__(self, repo=None, files=None):
        self.repo = repo or REPO
        self.units = {}
        self.funcs = {}       # stripped qname -> [FuncDef]
        self.by_last = {}     # last component -> [FuncDef]
        self.classes = {}     # name -> ClassDef
        self.enums = {}       # name -> EnumDef
        self.enumerators = {} # 'Enum::item' and 'item' -> int
        self._ambiguous_enumerators = set()
        self.filevars = {}    # path -> {name: VarDef}
        self.known_types = set()
        self.errors = []
        self.proto_defaults = {}
        paths = []
        if files is None:
            for g in SRC_GLOBS:
                paths += sorted(glob.glob(os.path.join(self.repo, g)))
        else:
            paths = [os.path.join(self.repo, f) for f in files]
        paths = [p for p in paths if os.path.basename(p) not in SKIP]
        # pass 1: collect class names so that bodies can recognise T{...}
        import re
        for p in paths:
            try:
                txt = open(p).read()
            except OSError:
                continue
            for m in re.finditer(r'\b(?:class|struct)\s+([A-Za-z_]\w*)', txt):
                self.known_types.add(m.group(1))
            for m in re.finditer(r'\busing\s+([A-Za-z_]\w*)\s*=', txt):
                self.known_types.add(m.group(1))
            for m in re.finditer(r'\benum\s+(?:class\s+)?([A-Za-z_]\w*)', txt):
                self.known_types.add(m.group(1))
        hdr_defines = {}
        for p in paths:
            try:
                u = cxx.parse_file(p, known_types=self.known_types)
            except cxx.ParseError as e:
                self.errors.append((p, str(e)))
                continue
            self.units[p] = u
            self.filevars[p] = {}
            for vd in u.vars:
                self.filevars[p][vd.decl.name] = vd
            for name, cd in u.classes.items():
                self.classes[name] = cd
            for name, ed in u.enums.items():
                self.enums[name] = ed
                ecls = getattr(ed, 'cls', None)
                for it, val in ed.items:
                    self.enumerators[name + '::' + it] = val
                    if ecls:
                        self.enumerators[ecls + '::' + it] = val
                        self.enumerators[ecls + '::' + name + '::' + it] = val
                    if not ed.scoped:
                        if it in self.enumerators and self.enumerators[it] != val and it not in self._ambiguous_enumerators:
                            # the same unqualified enumerator name in two enums (e.g. Config_options::GM2Calc = 4, Gm2_cmd_line_options::GM2Calc = 1):
                            # an unqualified use cannot be resolved by name alone
                            self._ambiguous_enumerators.add(it)
                        self.enumerators[it] = val
            for fd in u.funcs:
                key = strip_ns(fd.qname)
                self.funcs.setdefault(key, []).append(fd)
                self.by_last.setdefault(key.split('::')[-1], []).append(fd)
            for name, plist in u.proto_defaults.items():
                self.proto_defaults.setdefault(strip_ns(name), []).extend(plist)
        # default arguments given only in the declaration are attached to the definition
        for key, fds in self.funcs.items():
            for fd in fds:
                for params in self.proto_defaults.get(key, []):
                    if len(params) == len(fd.params) and all(strip_ns(a.type.name).split('::')[-1] == strip_ns(b.type.name).split('::')[-1] for a, b in zip(params, fd.params)):
                        for a, b in zip(params, fd.params):
                            if b.default is None and a.default is not None:
                                b.default = a.default

    # ---- lookup -------------------------------------------------------
    def rel(self, path):
        return os.path.relpath(path, self.repo)

    def find(self, name, file=None):
        """all definitions of a function by (possibly qualified) name; file: repo-relative path filter"""
        key = strip_ns(name)
        c = list(self.funcs.get(key, []))
        if not c:
            c = [f for f in self.by_last.get(key.split('::')[-1], []) if strip_ns(f.qname).endswith(key)]
        if file:
            c = [f for f in c if self.rel(f.file) == file]
        return c

    def body(self, fd):
        first = fd.body is None
        b = cxx.parse_body(fd, known_types=self.known_types)
        lu = getattr(fd, 'local_unit', None)
        if first and lu is not None and (lu.classes or lu.funcs):
            # classes defined inside the function body
            for name, cd in lu.classes.items():
                self.classes.setdefault(name, cd)
                self.known_types.add(name)
            for f2 in lu.funcs:
                key = strip_ns(f2.qname)
                if f2 not in self.funcs.get(key, []):
                    self.funcs.setdefault(key, []).append(f2)
                    self.by_last.setdefault(key.split('::')[-1], []).append(f2)
        return b

    def bases(self, cls):
        out = []
        cd = self.classes.get(cls)
        if cd:
            for b in cd.bases:
                b = strip_ns(b)
                out.append(b)
                out.extend(self.bases(b))
        return out

    def is_subclass(self, cls, base):
        cls, base = strip_ns(cls), strip_ns(base)
        return cls == base or base in self.bases(cls)

    def find_method(self, cls, name):
        """methods named `name` visible in class `cls` (own first, then bases)"""
        cls = strip_ns(cls)
        for c in [cls] + self.bases(cls):
            ms = self.funcs.get(c + '::' + name, [])
            if ms:
                return ms
        return []

    def members(self, cls):
        """all data members (Decl) of cls including bases"""
        cls = strip_ns(cls)
        out = []
        for c in reversed([cls] + self.bases(cls)):
            cd = self.classes.get(c)
            if cd:
                out.extend(cd.members)
        return out
