"""Value domain shared by the concrete (IEEE double) and the symbolic (exact rational /
z3 real) interpreter: scalars, complex numbers, fixed-size matrices, objects."""
from gm2v import fpset as _fp
import math, copy
from fractions import Fraction
import z3

class DimError(Exception):
    """dimensional inconsistency found by the units interpretation (a genuine counterexample to homogeneity)"""

class Dim:
    """mass dimension of a quantity (units interpretation): d is a Fraction, or None for 'any' (exact zero)"""
    __slots__ = ('d',)
    def __init__(self, d):
        self.d = None if d is None else Fraction(d)
    def __repr__(self):
        return 'Dim(%s)' % self.d

class UnknownBool:
    """truth value of a comparison between dimensioned quantities: both outcomes are explored"""
    pass

class FPUnknown(UnknownBool):
    """undetermined comparison between sets of doubles: the interpreter follows both outcomes and restricts the operands accordingly (fpset.refine)"""
    def __init__(self, op, a, b, negated=False):
        self.op, self.a, self.b, self.negated = op, a, b, negated

def _dim_of(x):
    if isinstance(x, Dim):
        return x.d
    if isinstance(x, bool):
        return Fraction(0)
    if isinstance(x, (int, float, Fraction)):
        return None if x == 0 else Fraction(0)
    raise EvalError('units interpretation: unsupported operand %r' % (x,))

class EvalError(Exception):
    """construct outside the supported subset, or a domain error in concrete mode"""

class UninitRead(EvalError):
    """the value of a variable that was declared without initialiser (indeterminate) is used"""
    pass

class Undef:
    """indeterminate value of a local declared without initialiser (Eigen fixed-size matrices/arrays and scalars are NOT zero-initialised by default)"""
    __slots__ = ('where',)
    def __init__(self, where):
        self.where = where
    def __repr__(self):
        return 'Undef(%s)' % self.where

def _chk_undef(a):
    if isinstance(a, Undef):
        raise UninitRead('read of the uninitialised variable %s' % a.where)

def is_sym(x):
    return isinstance(x, z3.ExprRef)

def is_num(x):
    return isinstance(x, (int, float, Fraction)) and not isinstance(x, bool) or (is_sym(x) and z3.is_arith(x))

def to_z3(x):
    if is_sym(x):
        return x
    if isinstance(x, bool):
        return z3.BoolVal(x)
    if isinstance(x, int):
        return z3.RealVal(x)
    if isinstance(x, Fraction):
        return z3.Q(x.numerator, x.denominator)
    if isinstance(x, float):
        f = Fraction(x)
        return z3.Q(f.numerator, f.denominator)
    _chk_undef(x)
    raise EvalError('cannot convert %r to z3' % (x,))

def z3real(x):
    x = to_z3(x)
    if z3.is_int(x):
        return z3.ToReal(x)
    return x

# ---- scalar arithmetic (C semantics for int op int) ------------------------
def _both_int(a, b):
    return isinstance(a, int) and isinstance(b, int) and not isinstance(a, bool) and not isinstance(b, bool)

def _b2i(a):
    if isinstance(a, Undef):
        raise UninitRead('read of the uninitialised variable %s' % a.where)
    if isinstance(a, bool):
        return int(a)
    if is_sym(a) and z3.is_bool(a):
        return z3.If(a, z3.RealVal(1), z3.RealVal(0))
    return a

class Cx:
    __slots__ = ('re', 'im')
    def __init__(self, re, im=0):
        self.re, self.im = re, im
    def __repr__(self):
        return 'Cx(%r, %r)' % (self.re, self.im)

def cx(a):
    return a if isinstance(a, Cx) else Cx(a, 0)

def _dim_addsub(a, b, what):
    if isinstance(a, UnknownBool) or isinstance(b, UnknownBool):
        return Dim(0)
    da, db = _dim_of(a), _dim_of(b)
    if da is None:
        return Dim(db)
    if db is None:
        return Dim(da)
    if da != db:
        raise DimError('%s of quantities with mass dimensions %s and %s' % (what, da, db))
    return Dim(da)

def _is_dim(x):
    return isinstance(x, (Dim, UnknownBool))

def add(a, b):
    a, b = _b2i(a), _b2i(b)
    if isinstance(a, _fp.FP) or isinstance(b, _fp.FP):
        return _fp.add(a, b)
    if isinstance(a, Mat) or isinstance(b, Mat):
        return mat_binop(add, a, b)
    if (_is_dim(a) or _is_dim(b)) and not (isinstance(a, Cx) or isinstance(b, Cx)):
        return _dim_addsub(a, b, 'sum')
    if isinstance(a, Cx) or isinstance(b, Cx):
        a, b = cx(a), cx(b)
        return Cx(add(a.re, b.re), add(a.im, b.im))
    if is_sym(a) or is_sym(b):
        return z3real(a) + z3real(b)
    return a + b

def neg(a):
    a = _b2i(a)
    if isinstance(a, _fp.FP):
        return _fp.neg(a)
    if isinstance(a, Dim):
        return a
    if isinstance(a, Mat):
        return a.map(neg)
    if isinstance(a, Cx):
        return Cx(neg(a.re), neg(a.im))
    return -a

def sub(a, b):
    a, b = _b2i(a), _b2i(b)
    if isinstance(a, _fp.FP) or isinstance(b, _fp.FP):
        return _fp.sub(a, b)
    if isinstance(a, Mat) or isinstance(b, Mat):
        return mat_binop(sub, a, b)
    if (_is_dim(a) or _is_dim(b)) and not (isinstance(a, Cx) or isinstance(b, Cx)):
        return _dim_addsub(a, b, 'difference')
    if isinstance(a, Cx) or isinstance(b, Cx):
        a, b = cx(a), cx(b)
        return Cx(sub(a.re, b.re), sub(a.im, b.im))
    if is_sym(a) or is_sym(b):
        return z3real(a) - z3real(b)
    return a - b

def is_zero_const(a):
    return isinstance(a, (int, Fraction)) and not isinstance(a, bool) and a == 0

def mul(a, b):
    a, b = _b2i(a), _b2i(b)
    if isinstance(a, _fp.FP) or isinstance(b, _fp.FP):
        return _fp.mul(a, b)
    if isinstance(b, PermMat) and isinstance(a, Mat):
        # (M * P).col(j) == M.col(indices[j])
        idx = b.indices()
        if a.c != b.n:
            raise EvalError('matrix * permutation: size mismatch')
        return Mat(a.r, a.c, [[a.d[i][idx[j]] for j in range(a.c)] for i in range(a.r)], a.kind, a.cplx)
    if isinstance(a, PermMat) and isinstance(b, Mat):
        # (P * M).row(indices[i]) == M.row(i)
        idx = a.indices()
        out = [None] * b.r
        for i in range(b.r):
            out[idx[i]] = list(b.d[i])
        return Mat(b.r, b.c, out, b.kind, b.cplx)
    if isinstance(a, Mat) or isinstance(b, Mat):
        return mat_mul(a, b)
    if (_is_dim(a) or _is_dim(b)) and not (isinstance(a, Cx) or isinstance(b, Cx)):
        da, db = _dim_of(a), _dim_of(b)
        if da is None or db is None:
            return Dim(None)
        return Dim(da + db)
    if isinstance(a, Cx) or isinstance(b, Cx):
        if not isinstance(a, Cx):
            return Cx(mul(a, b.re), mul(a, b.im))
        if not isinstance(b, Cx):
            return Cx(mul(a.re, b), mul(a.im, b))
        return Cx(sub(mul(a.re, b.re), mul(a.im, b.im)), add(mul(a.re, b.im), mul(a.im, b.re)))
    if is_sym(a) or is_sym(b):
        # exact-zero folding keeps polynomial identities small (only for exact constants)
        if is_zero_const(a) or is_zero_const(b):
            return 0
        return z3real(a) * z3real(b)
    return a * b

class DivHook:
    """set by the interpreter to record 'denominator != 0' side obligations"""
    hook = None

def div(a, b):
    a, b = _b2i(a), _b2i(b)
    if isinstance(a, _fp.FP) or isinstance(b, _fp.FP):
        return _fp.div(a, b)
    if isinstance(a, Mat):
        if isinstance(b, Mat):
            if a.kind == 'array' or b.kind == 'array':
                return mat_binop(div, a, b)
            raise EvalError('matrix / matrix')
        return a.map(lambda x: div(x, b))
    if isinstance(b, Mat):
        if b.kind == 'array':
            return b.map(lambda x: div(a, x))
        raise EvalError('scalar / matrix')
    if (_is_dim(a) or _is_dim(b)) and not (isinstance(a, Cx) or isinstance(b, Cx)):
        da, db = _dim_of(a), _dim_of(b)
        if da is None:
            return Dim(None)
        if db is None:
            raise DimError('division by an exact zero')
        return Dim(da - db)
    if isinstance(b, Cx):
        a = cx(a)
        den = add(mul(b.re, b.re), mul(b.im, b.im))
        num = mul(a, Cx(b.re, neg(b.im)))
        return Cx(div(num.re, den), div(num.im, den))
    if isinstance(a, Cx):
        return Cx(div(a.re, b), div(a.im, b))
    if _both_int(a, b):
        if b == 0:
            raise EvalError('integer division by zero')
        q = abs(a) // abs(b)
        return q if (a >= 0) == (b >= 0) else -q
    if is_sym(a) or is_sym(b):
        if DivHook.hook is not None:
            DivHook.hook(b)
        if not is_sym(b):
            if b == 0:
                raise EvalError('division by constant zero')
            return z3real(a) * to_z3(Fraction(1) / Fraction(b))
        return z3real(a) / z3real(b)
    if isinstance(a, float) or isinstance(b, float):
        a, b = float(a), float(b)
        if b == 0.0:
            if a != a or a == 0.0:
                return math.nan
            neg_ = (math.copysign(1.0, a) < 0) != (math.copysign(1.0, b) < 0)
            return -math.inf if neg_ else math.inf
        return a / b
    if b == 0:
        if DivHook.hook is not None:
            DivHook.hook(b)
        raise EvalError('division by zero (exact)')
    return Fraction(a) / Fraction(b)

def mod(a, b):
    if _both_int(a, b):
        return int(math.fmod(a, b))
    raise EvalError('% on non-int')

def cmp(op, a, b):
    a, b = _b2i(a), _b2i(b)
    if isinstance(a, _fp.FP) or isinstance(b, _fp.FP):
        try:
            return _fp.cmp(op, a, b)
        except _fp.Undetermined:
            if not _fp.FORK_UNDETERMINED:
                raise
            return FPUnknown(op, _fp.lift(a) if not isinstance(a, _fp.FP) else a, _fp.lift(b) if not isinstance(b, _fp.FP) else b)   # the interpreter explores both outcomes
    if _is_dim(a) or _is_dim(b):
        if isinstance(a, Dim) and isinstance(b, Dim) and a.d is not None and b.d is not None and a.d != b.d:
            raise DimError('comparison of quantities with mass dimensions %s and %s' % (a.d, b.d))
        return UnknownBool()      # comparisons with literals are tolerance tests: no dimension check
    if isinstance(a, Cx) or isinstance(b, Cx):
        a, b = cx(a), cx(b)
        if op == '==':
            return land(cmp('==', a.re, b.re), cmp('==', a.im, b.im))
        if op == '!=':
            return lnot(cmp('==', a, b))
        raise EvalError('ordering on complex')
    if isinstance(a, str) or isinstance(b, str):
        return {'==': a == b, '!=': a != b}[op]
    if is_sym(a) or is_sym(b):
        if (is_sym(a) and z3.is_bool(a)) or (is_sym(b) and z3.is_bool(b)):
            a, b = to_z3(a), to_z3(b)
        elif (is_sym(a) and z3.is_int(a) and isinstance(b, int)) or (is_sym(b) and z3.is_int(b) and isinstance(a, int)):
            a = a if is_sym(a) else z3.IntVal(a)
            b = b if is_sym(b) else z3.IntVal(b)
        else:
            a, b = z3real(a), z3real(b)
        return {'<': a < b, '>': a > b, '<=': a <= b, '>=': a >= b, '==': a == b, '!=': a != b}[op]
    return {'<': a < b, '>': a > b, '<=': a <= b, '>=': a >= b, '==': a == b, '!=': a != b}[op]

def lnot(a):
    if isinstance(a, FPUnknown):
        return FPUnknown(a.op, a.a, a.b, not a.negated)
    if isinstance(a, UnknownBool):
        return UnknownBool()
    if is_sym(a):
        return z3.Not(a)
    return not truthy(a)

def land(a, b):
    if isinstance(a, UnknownBool) or isinstance(b, UnknownBool):
        if (not isinstance(a, UnknownBool) and not truthy(a)) or (not isinstance(b, UnknownBool) and not truthy(b)):
            return False
        return UnknownBool()
    if is_sym(a) or is_sym(b):
        if not is_sym(a):
            return b if truthy(a) else False
        if not is_sym(b):
            return a if truthy(b) else False
        return z3.And(a, b)
    return truthy(a) and truthy(b)

def lor(a, b):
    if isinstance(a, UnknownBool) or isinstance(b, UnknownBool):
        if (not isinstance(a, UnknownBool) and truthy(a)) or (not isinstance(b, UnknownBool) and truthy(b)):
            return True
        return UnknownBool()
    if is_sym(a) or is_sym(b):
        if not is_sym(a):
            return True if truthy(a) else b
        if not is_sym(b):
            return True if truthy(b) else a
        return z3.Or(a, b)
    return truthy(a) or truthy(b)

def truthy(a):
    _chk_undef(a)
    if isinstance(a, bool):
        return a
    if is_sym(a):
        raise EvalError('symbolic truth value used concretely')
    if isinstance(a, (int, float, Fraction)):
        return a != 0
    if a is None:
        return False
    return bool(a)

def ite(c, a, b):
    """value-level if-then-else"""
    if isinstance(c, UnknownBool):
        if isinstance(a, Mat) or isinstance(b, Mat):
            return mat_binop(lambda x, y: ite(c, x, y), a, b)
        if isinstance(a, (Dim, int, float, Fraction)) and isinstance(b, (Dim, int, float, Fraction)):
            return _dim_addsub(a, b, 'two branches of a conditional')
        raise EvalError('units interpretation: conditional on %r' % (a,))
    if not is_sym(c):
        return a if truthy(c) else b
    if isinstance(a, Mat) or isinstance(b, Mat):
        return mat_binop(lambda x, y: ite(c, x, y), a, b)
    if isinstance(a, Cx) or isinstance(b, Cx):
        a, b = cx(a), cx(b)
        return Cx(ite(c, a.re, b.re), ite(c, a.im, b.im))
    if isinstance(a, tuple):
        return tuple(ite(c, x, y) for x, y in zip(a, b))
    if isinstance(a, bool) or isinstance(b, bool) or (is_sym(a) and z3.is_bool(a)):
        return z3.If(c, to_z3(a), to_z3(b))
    if isinstance(a, Obj) or isinstance(b, Obj):
        raise EvalError('ite on objects')
    return z3.If(c, z3real(a), z3real(b))

# ---- matrices ------------------------------------------------------------------
class Mat:
    """fixed-size Eigen::Matrix / Eigen::Array; kind in {'matrix','array'}; complex flag by element type"""
    def __init__(self, r, c, data, kind='matrix', cplx=False):
        self.r, self.c, self.d, self.kind, self.cplx = r, c, data, kind, cplx
    @staticmethod
    def fill(r, c, v, kind='matrix', cplx=False):
        return Mat(r, c, [[v for _ in range(c)] for _ in range(r)], kind, cplx)
    def copy(self):
        return Mat(self.r, self.c, [list(row) for row in self.d], self.kind, self.cplx)
    def map(self, f, kind=None, cplx=None):
        return Mat(self.r, self.c, [[f(x) for x in row] for row in self.d], kind or self.kind,
                   self.cplx if cplx is None else cplx)
    def get(self, i, j=None):
        if j is None:
            if self.c == 1:
                return self.d[i][0]
            if self.r == 1:
                return self.d[0][i]
            raise EvalError('single index on matrix')
        return self.d[i][j]
    def set(self, i, j, v):
        if j is None:
            if self.c == 1:
                i, j = i, 0
            elif self.r == 1:
                i, j = 0, i
            else:
                raise EvalError('single index on matrix')
        if not (0 <= i < self.r and 0 <= j < self.c):
            raise EvalError('matrix index out of range (%d,%d) for %dx%d' % (i, j, self.r, self.c))
        if isinstance(v, Cx) and not self.cplx:
            raise EvalError('complex stored into real matrix')
        self.d[i][j] = v
    def T(self):
        return Mat(self.c, self.r, [[self.d[i][j] for i in range(self.r)] for j in range(self.c)], self.kind, self.cplx)
    def elems(self):
        return [x for row in self.d for x in row]
    def __repr__(self):
        return 'Mat%dx%d%s(%r)' % (self.r, self.c, 'c' if self.cplx else '', self.d)

def mat_binop(f, a, b):
    if isinstance(a, Mat) and isinstance(b, Mat):
        if (a.r, a.c) != (b.r, b.c):
            raise EvalError('matrix size mismatch')
        return Mat(a.r, a.c, [[f(a.d[i][j], b.d[i][j]) for j in range(a.c)] for i in range(a.r)], a.kind,
                   a.cplx or b.cplx)
    if isinstance(a, Mat):
        if a.kind != 'array':
            raise EvalError('matrix (+-) scalar')
        return a.map(lambda x: f(x, b), cplx=a.cplx or isinstance(b, Cx))
    if b.kind != 'array':
        raise EvalError('scalar (+-) matrix')
    return b.map(lambda x: f(a, x), cplx=b.cplx or isinstance(a, Cx))

def mat_mul(a, b):
    if isinstance(a, Mat) and isinstance(b, Mat):
        if a.kind == 'array' and b.kind == 'array':
            return mat_binop(mul, a, b)
        if a.c != b.r:
            raise EvalError('matrix product size mismatch')
        out = []
        for i in range(a.r):
            row = []
            for j in range(b.c):
                s = None
                for k in range(a.c):
                    t = mul(a.d[i][k], b.d[k][j])
                    s = t if s is None else add(s, t)
                row.append(s)
            out.append(row)
        return Mat(a.r, b.c, out, 'matrix', a.cplx or b.cplx)
    if isinstance(a, Mat):
        return a.map(lambda x: mul(x, b), cplx=a.cplx or isinstance(b, Cx))
    return b.map(lambda x: mul(a, x), cplx=b.cplx or isinstance(a, Cx))

# ---- objects -----------------------------------------------------------------------
class Obj:
    def __init__(self, cls, fields=None):
        self.cls = cls
        self.f = fields if fields is not None else {}
    def __repr__(self):
        return 'Obj<%s>' % self.cls

class Opaque:
    def __init__(self, what):
        self.what = what
    def __repr__(self):
        return 'Opaque(%s)' % self.what

def deep_copy(v):
    if isinstance(v, Mat):
        return v.copy()
    if isinstance(v, Obj):
        return Obj(v.cls, {k: deep_copy(x) for k, x in v.f.items()})
    if isinstance(v, list):
        return [deep_copy(x) for x in v]
    return v


class MatView(Mat):
    """m.row(i) / m.col(j): a materialised copy that remembers its parent (for swap and assignment)"""
    def __init__(self, parent, axis, idx):
        if axis == 'row':
            Mat.__init__(self, 1, parent.c, [list(parent.d[idx])], parent.kind, parent.cplx)
        else:
            Mat.__init__(self, parent.r, 1, [[parent.d[i][idx]] for i in range(parent.r)], parent.kind, parent.cplx)
        self.parent, self.axis, self.idx = parent, axis, idx
    def write_back(self, m):
        p = self.parent
        vals = m.elems()
        if self.axis == 'row':
            p.d[self.idx] = list(vals)
        else:
            for i in range(p.r):
                p.d[i][self.idx] = vals[i]
        self.d = [list(r) for r in (m.d if (m.r, m.c) == (self.r, self.c) else m.T().d)]
    def swap(self, other):
        a, b = self.elems(), other.elems()
        tmp_self = Mat(self.r, self.c, [list(r) for r in self.d], self.kind, self.cplx)
        tmp_other = Mat(other.r, other.c, [list(r) for r in other.d], other.kind, other.cplx)
        self.write_back(tmp_other)
        other.write_back(tmp_self)

class PermMat:
    """Eigen::PermutationMatrix<N>: (M * P).col(j) == M.col(indices[j]);  (v^T * P)(j) == v(indices[j])"""
    def __init__(self, n):
        self.n = n
        self.idx = Mat(n, 1, [[i] for i in range(n)], 'matrix', False)
    def indices(self):
        return [self.idx.d[i][0] for i in range(self.n)]

class SegView(Mat):
    """v.segment<K>(start): a copy that writes back into its parent vector"""
    def __init__(self, parent, start, length):
        el = parent.elems()[start:start + length]
        Mat.__init__(self, length, 1, [[x] for x in el], parent.kind, parent.cplx)
        self.parent, self.start = parent, start
    def write_back(self):
        p = self.parent
        xs = self.elems()
        for k, x in enumerate(xs):
            i = self.start + k
            if p.c == 1:
                p.d[i][0] = x
            else:
                p.d[0][i] = x

class DataView:
    """m.data(): column-major element access"""
    def __init__(self, m):
        self.m = m
    def __len__(self):
        return self.m.r * self.m.c
    def __getitem__(self, i):
        return self.m.d[i % self.m.r][i // self.m.r]
    def __setitem__(self, i, v):
        self.m.d[i % self.m.r][i // self.m.r] = v
    def __add__(self, k):
        return DataPtr(self, k)

class DataPtr:
    """m.data() + k"""
    def __init__(self, view, off):
        self.view, self.off = view, off
