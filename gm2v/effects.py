"""Exception-effect inference: which exception classes may escape a function (bottom-up over the extracted ASTs).

A function's throw contract is inferred from its body: `throw E(...)` raises E; a call raises what the callee's contract
says (all overloads with that name and, for member calls with an unknown receiver class, all classes: conservative);
`noexcept` functions raise nothing; a try block filters by its handlers (catch(...) catches everything, catch(const T&)
catches T and its subclasses).  Library calls not in the table below are assumed not to throw (allocation failure is
ignored) -- the names so assumed are reported in the evidence.
"""
from .cxx import *
from .world import strip_ns

LIB_THROWS = {
    'std::stod': {'std::invalid_argument', 'std::out_of_range'}, 'std::stoi': {'std::invalid_argument', 'std::out_of_range'},
    'std::stol': {'std::invalid_argument', 'std::out_of_range'}, 'std::stoul': {'std::invalid_argument', 'std::out_of_range'},
    'boost::math::tools::toms748_solve': {'std::exception'}, 'toms748_solve': {'std::exception'},
}
STD_BASES = {'std::invalid_argument': 'std::logic_error', 'std::out_of_range': 'std::logic_error', 'std::logic_error': 'std::exception',
             'std::runtime_error': 'std::exception', 'std::domain_error': 'std::logic_error', 'std::bad_alloc': 'std::exception'}

TERMINATE = '!std::terminate'

class Effects:
    def __init__(self, world):
        self.w = world
        self.memo = {}
        self.stack = set()
        self.assumed_nothrow = set()
        self.unparsed = set()
        self.noexcept_violations = {}     # noexcept function -> exception classes that may reach its boundary

    # ---- class hierarchy
    def supers(self, c):
        c = strip_ns(c)
        out = [c]
        cd = self.w.classes.get(c)
        if cd:
            for b in cd.bases:
                out += self.supers(b if b.startswith('std::') else strip_ns(b))
        elif c in STD_BASES:
            out += self.supers(STD_BASES[c])
        return out

    def catches(self, handler_type, exc):
        if exc == TERMINATE:
            return False          # std::terminate is not an exception: no handler stops it
        if handler_type is None or exc == '*':
            return handler_type is None
        t = handler_type.name if handler_type.name.startswith('std::') else strip_ns(handler_type.name)
        return t in self.supers(exc)

    # ---- functions
    def fn_throws(self, fd):
        key = id(fd)
        if key in self.memo:
            return self.memo[key]
        if key in self.stack:
            return set()
        self.stack.add(key)
        try:
            try:
                body = self.w.body(fd)
            except ParseError:
                self.unparsed.add(fd.qname)
                r = {'*'}
            else:
                env = {'__cls': fd.cls, '__file': fd.file}
                for p in fd.params:
                    if p.name:
                        env[p.name] = strip_ns(p.type.name)
                r = self.stmt(body, env, None)
                if fd.inits:
                    for nm, args in fd.inits:
                        for a in args:
                            r |= self.expr(a, env, None)
                        # base/member constructors
                        r |= self.call_named(strip_ns(nm).split('::')[-1], None, len(args), ctor=True)
        finally:
            self.stack.discard(key)
        if fd.noexcept:
            # an exception that reaches the boundary of a noexcept function calls std::terminate: the process dies, no handler of a caller runs
            if r - {TERMINATE}:
                self.noexcept_violations.setdefault(fd.qname, set()).update(r - {TERMINATE})
                r = {TERMINATE}
            else:
                r = set(r)
        self.memo[key] = r
        return r

    def call_named(self, name, recv_cls, nargs, ctor=False, arg_classes=None):
        """union of the throw sets of all functions that `name` may denote"""
        s = strip_ns(name)
        if s in LIB_THROWS:
            return set(LIB_THROWS[s])
        last = s.split('::')[-1]
        if last in LIB_THROWS and s.startswith(('std::', 'boost::')):
            return set(LIB_THROWS[last])
        cands = []
        if ctor:
            cands = self.w.funcs.get(last + '::' + last, [])
        elif recv_cls:
            cands = self.w.find_method(recv_cls, last)
        if not cands and not ctor:
            if '::' in s and not s.startswith(('std::', 'Eigen::', 'boost::')):
                cands = self.w.find(s)
            elif not s.startswith(('std::', 'Eigen::', 'boost::')):
                cands = list(self.w.by_last.get(last, [])) if recv_cls is None else []
                if recv_cls is None:
                    # free function or implicit-this method: prefer exact free functions, else any method of that name
                    free = [f for f in cands if f.cls is None]
                    cands = free or cands
        if not cands:
            if s.startswith(('std::', 'Eigen::', 'boost::')) or not s[:1].isalpha():
                pass
            self.assumed_nothrow.add(s)
            return set()
        out = set()
        fit = [fd for fd in cands if len([p for p in fd.params if p.default is None]) <= nargs <= len(fd.params) or ctor]
        if arg_classes:
            # overloads on the model class: keep those whose class-typed parameters agree with the known argument classes
            def agrees(fd):
                for p, c in zip(fd.params, arg_classes):
                    pc = strip_ns(p.type.name)
                    if c and pc in self.w.classes and not (pc == c or pc in self.supers(c)):
                        return False
                return True
            fit2 = [fd for fd in fit if agrees(fd)]
            if fit2:
                fit = fit2
        for fd in fit:
            out |= self.fn_throws(fd)
        return out

    # ---- expression class inference (light)
    def cls_of(self, e, env):
        if isinstance(e, Id):
            if e.name == 'this':
                return env.get('__cls')
            t = env.get(e.name)
            return t if t in self.w.classes else None
        if isinstance(e, Cast):
            n = strip_ns(e.type.name)
            return n if n in self.w.classes else None
        if isinstance(e, Unary) and e.op in ('*', '&'):
            return self.cls_of(e.e, env)
        if isinstance(e, Construct):
            n = strip_ns(e.type.name)
            return n if n in self.w.classes else None
        if isinstance(e, Call):
            # getter returning a class type
            if isinstance(e.f, Member):
                rc = self.cls_of(e.f.e, env)
                ms = self.w.find_method(rc, e.f.name) if rc else [f for f in self.w.by_last.get(e.f.name, []) if f.cls]
                for m in ms:
                    if m.ret is not None and strip_ns(m.ret.name) in self.w.classes:
                        return strip_ns(m.ret.name)
            if isinstance(e.f, Id):
                for m in self.w.find(e.f.name):
                    if m.ret is not None and strip_ns(m.ret.name) in self.w.classes:
                        return strip_ns(m.ret.name)
        if getattr(e, 'paren', False) and False:
            pass
        return None

    # ---- statements / expressions: return set of escaping exception classes
    def stmt(self, s, env, caught):
        k = type(s)
        out = set()
        if k is Block:
            env = dict(env)
            for x in s.stmts:
                out |= self.stmt(x, env, caught)
            return out
        if k is Decl:
            n = strip_ns(s.type.name)
            if n in self.w.classes:
                env[s.name] = n
                if s.init is None:
                    out |= self.call_named(n, None, len(s.ctor_args or []), ctor=True)
            elif n == 'auto' and s.init is not None:
                c = self.cls_of(s.init, env)
                if c:
                    env[s.name] = c
            elif n == 'auto' and s.ctor_args:
                c = self.cls_of(s.ctor_args[0], env)
                if c:
                    env[s.name] = c
            if s.init is not None:
                out |= self.expr(s.init, env, caught)
            for a in (s.ctor_args or []):
                out |= self.expr(a, env, caught)
            return out
        if k is DeclGroup:
            for d in s.decls:
                out |= self.stmt(d, env, caught)
            return out
        if k is ExprStmt:
            return self.expr(s.e, env, caught)
        if k is If:
            return self.expr(s.c, env, caught) | self.stmt(s.a, env, caught) | (self.stmt(s.b, env, caught) if s.b is not None else set())
        if k is For:
            env = dict(env)
            if s.init is not None:
                out |= self.stmt(s.init, env, caught)
            for x in (s.c, s.step):
                if x is not None:
                    out |= self.expr(x, env, caught)
            return out | self.stmt(s.body, env, caught)
        if k is RangeFor:
            return self.expr(s.range, env, caught) | self.stmt(s.body, env, caught)
        if k in (While, DoWhile):
            return self.expr(s.c, env, caught) | self.stmt(s.body, env, caught)
        if k is Switch:
            out |= self.expr(s.e, env, caught)
            for labels, stmts in s.cases:
                for st in stmts:
                    out |= self.stmt(st, env, caught)
            return out
        if k is Return:
            return self.expr(s.e, env, caught) if s.e is not None else set()
        if k is Throw:
            if s.e is None:
                return set(caught) if caught is not None else {'*'}
            return self.thrown_class(s.e, env) | self.expr(s.e, env, caught)
        if k is Try:
            body = self.stmt(s.body, env, caught)
            esc = set()
            for c in body:
                hs = [h for h in s.handlers if self.catches(h[0], c)]
                if c == '*':
                    hs = [h for h in s.handlers if h[0] is None]
                if not hs:
                    esc.add(c)
            for (ty, nm, blk) in s.handlers:
                can = {c for c in body if (self.catches(ty, c) if c != '*' else ty is None)}
                if ty is None:
                    can = set(body)
                if can:
                    esc |= self.stmt(blk, env, can)
            return esc
        return out

    def thrown_class(self, e, env):
        if isinstance(e, Construct):
            n = e.type.name
            return {n if n.startswith('std::') else strip_ns(n)}
        if isinstance(e, Call) and isinstance(e.f, Id):
            n = e.f.name
            return {n if n.startswith('std::') else strip_ns(n)}
        return {'*'}

    def expr(self, e, env, caught):
        out = set()
        if e is None:
            return out
        k = type(e)
        if k in (Num, Str, Chr, BoolLit, Id):
            return out
        if k is Log:
            # ERROR/WARNING/VERBOSE(msg): std::cerr << msg ... ; streaming a model object calls its operator<< / print
            from .cxx import Parser, Tok
            toks = [Tok(t.k, t.v, t.pos, t.line) for t in e.toks] + [Tok('eof', '', 0, 0)]
            try:
                ex = Parser(toks, known_types=self.w.known_types).parse_expr()
            except ParseError:
                return {'*'}
            # the macro body is `std::cerr << <message> << '\\n'`
            return self.stream_expr(Binary('<<', Id('std::cerr', None), ex), env, caught)
        if k is Throw:
            return self.thrown_class(e.e, env) | self.expr(e.e, env, caught)
        if k is Lambda:
            env2 = dict(env)
            for p in e.params:
                if p.name:
                    env2[p.name] = strip_ns(p.type.name)
            return self.stmt(e.body, env2, caught)
        if k is Call:
            for a in e.args:
                out |= self.expr(a, env, caught)
            if isinstance(e.f, Member):
                out |= self.expr(e.f.e, env, caught)
                rc = self.cls_of(e.f.e, env)
                if rc is None:
                    # unknown receiver: all classes that have such a method (conservative) -- but not for std/Eigen objects
                    ms = [f for f in self.w.by_last.get(e.f.name, []) if f.cls]
                    tname = None
                    if isinstance(e.f.e, Id):
                        tname = env.get(e.f.e.name)
                    if tname and (tname.startswith(('std::', 'Eigen::', 'SLHAea', 'boost::')) or tname in ('double', 'int', 'auto', 'bool', 'unsigned')):
                        ms = []
                    for m in ms:
                        if len([p for p in m.params if p.default is None]) <= len(e.args) <= len(m.params):
                            out |= self.fn_throws(m)
                else:
                    out |= self.call_named(e.f.name, rc, len(e.args))
            elif isinstance(e.f, Id):
                n = e.f.name
                s = strip_ns(n)
                this_cls0 = env.get('__cls')
                if this_cls0 and '::' not in s and any(d.name == s for d in self.w.members(this_cls0)) and not self.w.find_method(this_cls0, s):
                    # call through a std::function data member: any functor (operator()) defined in the same file may be its target
                    for fd2 in self.w.by_last.get('operator()', []):
                        if fd2.file == env.get('__file'):
                            out |= self.fn_throws(fd2)
                    return out
                if s in env and env[s] not in self.w.classes:
                    return out          # local callable (lambda analysed where defined)
                this_cls = env.get('__cls')
                if this_cls and '::' not in s and self.w.find_method(this_cls, s):
                    out |= self.call_named(s, this_cls, len(e.args))
                elif s in self.w.classes or s.split('::')[-1] in self.w.classes:
                    out |= self.call_named(s.split('::')[-1], None, len(e.args), ctor=True)
                else:
                    out |= self.call_named(s, None, len(e.args), arg_classes=[self.cls_of(a, env) for a in e.args])
            else:
                out |= self.expr(e.f, env, caught)
            return out
        if k is Construct:
            for a in e.args:
                out |= self.expr(a, env, caught)
            n = strip_ns(e.type.name)
            if n in self.w.classes:
                out |= self.call_named(n, None, len(e.args), ctor=True)
            return out
        if k is Binary and e.op == '<<':
            return self.stream_expr(e, env, caught)
        for f in e._fields:
            v = getattr(e, f)
            if isinstance(v, Node):
                out |= self.expr(v, env, caught)
            elif isinstance(v, list):
                for x in v:
                    if isinstance(x, Node):
                        out |= self.expr(x, env, caught)
        return out

    def stream_expr(self, e, env, caught):
        """a << b << c: operands; streaming an object of class C calls operator<<(ostream&, const C&)"""
        out = set()
        if isinstance(e, Binary) and e.op == '<<':
            out |= self.stream_expr(e.l, env, caught)
            out |= self.expr(e.r, env, caught)
            c = self.cls_of(e.r, env)
            if c:
                for fd in self.w.by_last.get('operator<<', []):
                    if len(fd.params) == 2 and strip_ns(fd.params[1].type.name) in self.supers(c):
                        out |= self.fn_throws(fd)
            return out
        return self.expr(e, env, caught)
