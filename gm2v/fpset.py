"""Sound enclosures of SETS OF IEEE-754 doubles (round-to-nearest) for executing extracted code on whole ranges of inputs, special values included.

An FP value stands for a set of doubles: a list of closed pieces [lo, hi] (each sign-homogeneous; signed zeros as end points say which zero belongs to
the piece: [-0.0, -0.0] is {-0}, [+0.0, hi] starts at +0, [lo, -0.0] ends at -0) and a NaN flag.  The transfer functions use only that +, -, *, /, sqrt in
round-to-nearest are monotone in each argument on sign-homogeneous pieces, so the set of ROUNDED results of x op y, x in A, y in B, lies between the rounded
results at the end points -- no outward rounding is needed, underflow to zero and overflow to infinity are what the end-point operation itself produces.
Invalid operations (0*inf, 0/0, inf/inf, inf-inf, sqrt of a negative number) set the NaN flag.  `ident` is a structural name of the expression that produced
the value: x - x with equal names and x finite is exactly +0 (the only correlation that is tracked).  A comparison that is not decided for the whole set
raises Undetermined: the caller must split the input range."""
import math

INF = math.inf
FORK_UNDETERMINED = True     # undetermined comparisons are explored both ways by the interpreter (run_paths); False: raise Undetermined

class Undetermined(Exception):
    pass

def _sgn(x):
    return math.copysign(1.0, x)

def _le(a, b):
    """total order on doubles with -0 < +0"""
    if a == b:
        return _sgn(a) <= _sgn(b)
    return a < b

class FP:
    __slots__ = ('pieces', 'nan', 'ident')

    def __init__(self, pieces, nan=False, ident=None):
        self.pieces = _norm(pieces)
        self.nan = bool(nan)
        self.ident = ident

    @staticmethod
    def point(x, ident=None):
        x = float(x)
        if x != x:
            return FP([], True, ident)
        return FP([(x, x)], False, ident if ident is not None else ('c', repr(x)))

    @staticmethod
    def range(lo, hi, name):
        return FP([(float(lo), float(hi))], False, ('in', name))

    def clone(self):
        return FP(list(self.pieces), self.nan, self.ident)

    def finite(self):
        return not self.nan and all(abs(lo) != INF and abs(hi) != INF for lo, hi in self.pieces)

    def is_point(self):
        return not self.nan and len(self.pieces) == 1 and self.pieces[0][0] == self.pieces[0][1] and _sgn(self.pieces[0][0]) == _sgn(self.pieces[0][1])

    def value(self):
        assert self.is_point()
        return self.pieces[0][0]

    def has_zero(self):
        return any(lo == 0 or hi == 0 for lo, hi in self.pieces)

    def __repr__(self):
        return 'FP{%s%s}' % (' u '.join('[%r, %r]' % p for p in self.pieces), ' u NaN' if self.nan else '')

def _split(lo, hi):
    """sign-homogeneous pieces of [lo, hi]"""
    if _sgn(lo) < 0 and _sgn(hi) > 0:
        return [(lo, -0.0), (0.0, hi)]
    return [(lo, hi)]

def _norm(pieces):
    ps = []
    for lo, hi in pieces:
        if lo != lo or hi != hi:
            raise ValueError('NaN end point')
        if not _le(lo, hi):
            raise ValueError('empty piece [%r, %r]' % (lo, hi))
        ps.extend(_split(lo, hi))
    ps.sort(key=lambda p: (p[0], _sgn(p[0])))
    out = []
    for lo, hi in ps:
        if out and _sgn(out[-1][0]) == _sgn(lo) and (_le(lo, out[-1][1]) or lo == out[-1][1]):
            if _le(out[-1][1], hi):
                out[-1] = (out[-1][0], hi)
        else:
            out.append((lo, hi))
    return out

def lift(x):
    if isinstance(x, FP):
        return x
    if isinstance(x, bool):
        x = int(x)
    return FP.point(float(x))

def _name(op, a, b=None):
    if a.ident is None or (b is not None and b.ident is None):
        return None
    return (op, a.ident) if b is None else (op, a.ident, b.ident)

def neg(a):
    a = lift(a)
    return FP([(-hi, -lo) for lo, hi in a.pieces], a.nan, _name('neg', a))

def add(a, b, _op='+'):
    a, b = lift(a), lift(b)
    nan = a.nan or b.nan
    out = []
    for a1, a2 in a.pieces:
        for b1, b2 in b.pieces:
            if (a1 == -INF and b2 == INF) or (a2 == INF and b1 == -INF):
                nan = True
            lo = a1 + b1
            hi = a2 + b2
            if lo != lo:
                lo = -INF
            if hi != hi:
                hi = INF
            out.append((lo, hi))
    return FP(out, nan, _name(_op, a, b))

def sub(a, b):
    a, b = lift(a), lift(b)
    if a.ident is not None and a.ident == b.ident and a.finite() and a.pieces:
        return FP([(0.0, 0.0)], False, _name('-', a, b))      # x - x == +0 for every finite x (round to nearest)
    r = add(a, neg(b), '-')
    r.ident = _name('-', a, b)
    return r

def _mag(p):
    lo, hi = p
    if _sgn(lo) < 0:
        return -1.0, abs(hi), abs(lo)
    return 1.0, abs(lo), abs(hi)

def mul(a, b):
    a, b = lift(a), lift(b)
    nan = a.nan or b.nan
    out = []
    for p in a.pieces:
        sa, m1, m2 = _mag(p)
        for q in b.pieces:
            sb, n1, n2 = _mag(q)
            if (m1 == 0 and n2 == INF) or (n1 == 0 and m2 == INF):
                nan = True
            lo = 0.0 if (m1 == 0 or n1 == 0) else m1 * n1
            hi = INF if (m2 == INF or n2 == INF) else m2 * n2
            if (m2 == 0) or (n2 == 0):
                hi = 0.0
            s = sa * sb
            out.append((lo, hi) if s > 0 else (-hi, -lo))
    return FP(out, nan, _name('*', a, b))

def div(a, b):
    a, b = lift(a), lift(b)
    nan = a.nan or b.nan
    out = []
    for p in a.pieces:
        sa, m1, m2 = _mag(p)
        for q in b.pieces:
            sb, n1, n2 = _mag(q)
            if (m1 == 0 and n1 == 0) or (m2 == INF and n2 == INF):
                nan = True
            # smallest quotient m1/n2, largest m2/n1
            if m1 == 0 or n2 == INF:
                lo = 0.0
            else:
                lo = INF if n2 == 0 else m1 / n2
            if m2 == INF or n1 == 0:
                hi = INF
            else:
                hi = m2 / n1
            if m2 == 0 or n1 == INF:
                hi = 0.0          # only 0/y or x/inf: zero (0/0, inf/inf flagged above)
                lo = 0.0
            if n2 == 0 and m1 > 0:
                lo = INF          # x/0 with x != 0: infinity only
            s = sa * sb
            out.append((lo, hi) if s > 0 else (-hi, -lo))
    return FP(out, nan, _name('/', a, b))

def sqrt(a):
    a = lift(a)
    nan = a.nan
    out = []
    for lo, hi in a.pieces:
        if _sgn(lo) < 0:
            if lo != 0:
                nan = True
            if hi == 0:
                out.append((-0.0, -0.0))
            continue
        out.append((math.sqrt(lo), math.sqrt(hi)))
    return FP(out, nan, _name('sqrt', a))

def log(a, ulps=2):
    """libm log: monotone up to `ulps` units in the last place (A-LIBM), log(+-0) = -inf, log(x < 0) = NaN, log(inf) = inf"""
    a = lift(a)
    nan = a.nan
    out = []
    def dn(v):
        for _ in range(ulps):
            v = math.nextafter(v, -INF)
        return v
    def up(v):
        for _ in range(ulps):
            v = math.nextafter(v, INF)
        return v
    for lo, hi in a.pieces:
        if _sgn(lo) < 0:
            if lo != 0:
                nan = True
            if hi == 0:
                out.append((-INF, -INF))
            continue
        l = -INF if lo == 0 else (INF if lo == INF else dn(math.log(lo)))
        h = -INF if hi == 0 else (INF if hi == INF else up(math.log(hi)))
        out.append((l, h))
    return FP(out, nan, _name('log', a))

def _ulp_down(v, ulps):
    for _ in range(ulps):
        v = math.nextafter(v, -INF)
    return v

def _ulp_up(v, ulps):
    for _ in range(ulps):
        v = math.nextafter(v, INF)
    return v

def log1p(a, ulps=2):
    """libm log1p: monotone up to `ulps` units in the last place (A-LIBM); log1p(-1) = -inf, log1p(x < -1) = NaN, sign of zero preserved"""
    a = lift(a)
    nan = a.nan
    out = []
    for lo, hi in a.pieces:
        if hi < -1.0:
            nan = True
            continue
        if lo < -1.0:
            nan = True
            lo = -1.0
        def f(v, rnd):
            if v == -1.0:
                return -INF
            if v == 0 or v == INF:
                return v
            return rnd(math.log1p(v), ulps)
        l, h = f(lo, _ulp_down), f(hi, _ulp_up)
        if lo > 0:
            l = max(l, 0.0)
        if _sgn(hi) < 0 and h >= 0:
            h = -0.0
        out.append((l, h))
    return FP(out, nan, _name('log1p', a))

def atan2(y, x):
    """coarse: atan2 of NaN-free arguments lies in [-pi, pi] ([0, pi] for y >= +0, [-pi, -0] for y <= -0), libm rounding included"""
    y, x = lift(y), lift(x)
    PI_UP = math.nextafter(math.pi, INF)
    if y.is_point() and x.is_point():
        v = math.atan2(y.value(), x.value())
        return FP([(_ulp_down(v, 2), _ulp_up(v, 2))] if v != 0 else [(v, v)], False, _name('atan2', y, x))
    out = []
    for lo, hi in y.pieces:
        if x.pieces:
            out.append((0.0, PI_UP) if _sgn(lo) > 0 else (-PI_UP, -0.0))
    return FP(out, y.nan or x.nan, _name('atan2', y, x))

def fmod(a, b):
    """std::fmod (exact in IEEE arithmetic): |result| < |b|, |result| <= |a|, sign of a; NaN for infinite a or zero b"""
    a, b = lift(a), lift(b)
    nan = a.nan or b.nan or b.has_zero() or not a.finite()
    bmax = max([max(abs(l), abs(h)) for l, h in b.pieces] or [0.0])
    out = []
    for lo, hi in a.pieces:
        s, m1, m2 = _mag((lo, hi))
        if m1 == INF:
            continue
        top = min(m2, math.nextafter(bmax, 0.0) if bmax != INF else m2)
        if m2 == INF:
            top = math.nextafter(bmax, 0.0) if bmax != INF else 1.7976931348623157e308
        bot = m1 if m2 < min([min(abs(l), abs(h)) for l, h in b.pieces] or [INF]) else 0.0
        out.append((bot, top) if s > 0 else (-top, -bot))
    return FP(out, nan, _name('fmod', a, b))

def fmaxmin(a, b, is_max):
    """std::max / std::min on NaN-free sets (monotone in both arguments); a NaN operand makes the result depend on the argument order: flagged"""
    a, b = lift(a), lift(b)
    pick = (lambda x, y: y if _le(x, y) else x) if is_max else (lambda x, y: x if _le(x, y) else y)
    out = [(pick(a1, b1), pick(a2, b2)) for a1, a2 in a.pieces for b1, b2 in b.pieces]
    return FP(out, a.nan or b.nan, _name('max' if is_max else 'min', a, b))

def fabs(a):
    a = lift(a)
    return FP([(abs(lo), abs(hi)) if _sgn(lo) > 0 else (abs(hi), abs(lo)) for lo, hi in a.pieces], a.nan, _name('abs', a))

def cmp(op, a, b):
    a, b = lift(a), lift(b)
    res = set()
    if a.nan or b.nan:
        res.add(op == '!=')
    for a1, a2 in a.pieces:
        for b1, b2 in b.pieces:
            # numeric comparison (-0 == +0)
            if op in ('<', '<='):
                f = (lambda x, y: x < y) if op == '<' else (lambda x, y: x <= y)
                res.add(f(a2, b1)) if f(a2, b1) == f(a1, b2) else res.update((True, False))
            elif op in ('>', '>='):
                f = (lambda x, y: x > y) if op == '>' else (lambda x, y: x >= y)
                res.add(f(a1, b2)) if f(a1, b2) == f(a2, b1) else res.update((True, False))
            else:
                disjoint = a2 < b1 or b2 < a1
                same_point = a1 == a2 == b1 == b2
                if disjoint:
                    res.add(op == '!=')
                elif same_point:
                    res.add(op == '==')
                else:
                    res.update((True, False))
    if len(res) != 1:
        raise Undetermined('%r %s %r' % (a, op, b))
    return res.pop()

def _clip(fp, lo=None, hi=None):
    """in place: keep the members v with lo <= v <= hi (total order with -0 < +0)"""
    out = []
    for l, h in fp.pieces:
        if lo is not None and not _le(lo, l):
            l = lo
        if hi is not None and not _le(h, hi):
            h = hi
        if _le(l, h):
            out.append((l, h))
    fp.pieces = _norm(out)

def _bounds(fp):
    return (fp.pieces[0][0], fp.pieces[-1][1]) if fp.pieces else (None, None)

def refine(op, a, b, outcome):
    """in place: restrict the sets a and b to the members for which `a op b` can have the given outcome (used by the interpreter on the branch it
    follows after an undetermined comparison).  Returns False when nothing is left (the branch is infeasible)."""
    if op == '!=':
        outcome, op = (not outcome), '=='
        if not outcome and False:
            pass
        # a != b  <=>  not (a == b): handled as the complementary outcome of ==
    if outcome:
        # true (for <, <=, >, >=, ==) only for ordered operands that satisfy the relation
        a.nan = b.nan = False
        return _refine_true(op, a, b)
    # false: an operand is NaN (then nothing is known about the other), or the operands are ordered and satisfy the complementary relation
    if a.nan or b.nan:
        return True
    return _refine_true({'<': '>=', '<=': '>', '>': '<=', '>=': '<', '==': '!='}[op], a, b)

def _refine_true(op, a, b):
    alo, ahi = _bounds(a)
    blo, bhi = _bounds(b)
    if alo is None or blo is None:
        a.pieces = []
        b.pieces = []
        return False
    dn = lambda v: math.nextafter(v, -INF) if v != 0 else -5e-324
    up = lambda v: math.nextafter(v, INF) if v != 0 else 5e-324
    if op == '<':
        _clip(a, hi=dn(bhi))
        _clip(b, lo=up(alo))
    elif op == '<=':
        _clip(a, hi=(bhi if bhi != 0 else 0.0))
        _clip(b, lo=(alo if alo != 0 else -0.0))
    elif op == '>':
        _clip(a, lo=up(blo))
        _clip(b, hi=dn(ahi))
    elif op == '>=':
        _clip(a, lo=(blo if blo != 0 else -0.0))
        _clip(b, hi=(ahi if ahi != 0 else 0.0))
    elif op == '==':
        _clip(a, lo=(blo if blo != 0 else -0.0), hi=(bhi if bhi != 0 else 0.0))
        _clip(b, lo=(alo if alo != 0 else -0.0), hi=(ahi if ahi != 0 else 0.0))
    elif op == '!=':
        for x, y in ((a, b), (b, a)):
            lo, hi = _bounds(y)
            if lo == hi:            # y is a single number (both zeros count as one): remove it from x
                out = []
                for l, h in x.pieces:
                    if h < lo or l > lo:
                        out.append((l, h))
                        continue
                    if l < lo:
                        out.append((l, dn(lo)))
                    if h > lo:
                        out.append((up(lo), h))
                x.pieces = _norm(out)
    return bool(a.pieces) and bool(b.pieces)

def isfinite(a):
    a = lift(a)
    res = set()
    if a.nan:
        res.add(False)
    for lo, hi in a.pieces:
        if abs(lo) == INF and abs(hi) == INF:
            res.add(False)
        elif abs(lo) == INF or abs(hi) == INF:
            res.update((True, False))
        else:
            res.add(True)
    if len(res) != 1:
        raise Undetermined('isfinite(%r)' % (a,))
    return res.pop()

def decide_on_box(run_set, box, accept_set, run_point=None, accept_point=None, max_boxes=400):
    """run_set(values) executes the code with `values` = {name: FP} and returns the FP set of results; accept_set(result) says whether the postcondition
    holds for the whole set.  The box {name: (lo, hi)} is bisected (along its relatively widest side) where the enclosure is too wide.  A sub-box with a
    concrete double point (midpoint, end points of each side) at which run_point -- an ordinary IEEE execution of the same code -- violates accept_point is a
    counterexample.  Returns ('proved', n_boxes, None) | ('failed', n, {name: double, '_result': ...}) | ('undecided', n, reason)."""
    if run_point is None:
        run_point = lambda pt: run_set({k: FP.point(v, ('in', k)) for k, v in pt.items()})
        accept_point = accept_set
    work = [dict(box)]
    n = 0
    while work:
        b = work.pop()
        n += 1
        if n > max_boxes:
            return 'undecided', n, 'more than %d sub-boxes needed (last %r)' % (max_boxes, b)
        vals = {k: (FP.range(lo, hi, k) if lo != hi else FP.point(lo, ('in', k))) for k, (lo, hi) in b.items()}
        try:
            r = run_set(vals)
            ok = accept_set(r)
            why = 'result set %r on %r' % (r, b)
        except Undetermined as e:
            ok = False
            why = 'undetermined comparison %s' % e
        if ok:
            continue
        mid = {k: (lo if lo == hi else (math.sqrt(lo) * math.sqrt(hi) if lo > 0 else (-math.sqrt(-lo) * math.sqrt(-hi) if hi < 0 else 0.5 * (lo + hi)))) for k, (lo, hi) in b.items()}
        for pt in [mid] + [{k: (p[i] if p[0] != p[1] and k == kk else mid[k]) for k, p in b.items()} for kk in b for i in (0, 1) if b[kk][0] != b[kk][1]]:
            rm = run_point(pt)
            if not accept_point(rm):
                return 'failed', n, dict(pt, _result=repr(rm))
        wide = [(hi / lo if lo > 0 else (lo / hi if hi < 0 else INF), k) for k, (lo, hi) in b.items() if lo != hi]
        if not wide:
            return 'undecided', n, why
        k = max(wide)[1]
        lo, hi = b[k]
        m = mid[k]
        if not (lo < m < hi):
            return 'undecided', n, why
        work.append(dict(b, **{k: (lo, m)}))
        work.append(dict(b, **{k: (m, hi)}))
    return 'proved', n, None

def union(results):
    """the set of values of several paths"""
    ps, nan = [], False
    for r in results:
        r = lift(r)
        ps += r.pieces
        nan = nan or r.nan
    return FP(ps, nan)

def _selftest():
    """end-point semantics against brute force on small grids of doubles (including specials)"""
    import itertools, random
    rnd = random.Random(1)
    specials = [0.0, -0.0, INF, -INF, 1.0, -1.0, 5e-324, -5e-324, 1.7976931348623157e308, 2.0, 0.5, 1e-200, 1e200, -1e200, -1e-200, 3.0]
    specials += [rnd.choice((-1, 1)) * rnd.uniform(1, 2) * 2.0**rnd.randint(-1074, 1023) for _ in range(40)]
    def members(fp, grid):
        out = []
        for g in grid:
            for lo, hi in fp.pieces:
                if _le(lo, g) and _le(g, hi):
                    out.append(g)
                    break
        return out
    def contains(fp, v):
        if v != v:
            return fp.nan
        return any(_le(lo, v) and _le(v, hi) for lo, hi in fp.pieces)
    def fop(op, x, y):
        try:
            if op == '+':
                return x + y
            if op == '-':
                return x - y
            if op == '*':
                return x * y
            if op == '/':
                if y == 0:
                    if x == 0 or x != x:
                        return math.nan
                    return math.copysign(INF, x) * _sgn(y)
                return x / y
        except OverflowError:
            return math.copysign(INF, x) * (_sgn(y) if op in '*/' else 1.0)
    n = 0
    for _ in range(4000):
        ends = sorted(rnd.sample(specials, 2), key=lambda v: (v, _sgn(v)))
        ends2 = sorted(rnd.sample(specials, 2), key=lambda v: (v, _sgn(v)))
        A = FP([tuple(ends)])
        B = FP([tuple(ends2)])
        for op, f in (('+', add), ('-', sub), ('*', mul), ('/', div)):
            R = f(A, B)
            for x in members(A, specials):
                for y in members(B, specials):
                    v = fop(op, x, y)
                    n += 1
                    if not contains(R, v):
                        raise AssertionError('%r %s %r: %r op %r = %r not in %r' % (A, op, B, x, y, v, R))
        R = sqrt(A)
        for x in members(A, specials):
            v = math.sqrt(x) if (x >= 0) else math.nan
            if not contains(R, v):
                raise AssertionError('sqrt %r: %r -> %r not in %r' % (A, x, v, R))
    return n

if __name__ == '__main__':
    print('selftest ok', _selftest())
