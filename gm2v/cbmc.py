"""Back end A: CBMC code contracts (goto-cc -> goto-instrument --dfcc --enforce-contract -> cbmc)."""
import os, subprocess, json, time, re, resource

def _limits():
    resource.setrlimit(resource.RLIMIT_AS, (12 * 2**30, 12 * 2**30))

def run(cmd, timeout, cwd=None):
    try:
        r = subprocess.run(cmd, capture_output=True, text=True, timeout=timeout, cwd=cwd, preexec_fn=_limits)
        return r.returncode, r.stdout, r.stderr
    except subprocess.TimeoutExpired as e:
        return -9, (e.stdout or b'').decode() if isinstance(e.stdout, bytes) else (e.stdout or ''), 'TIMEOUT'

class CbmcResult:
    def __init__(self):
        self.status = 'error'        # proved | failed | undecided | error
        self.props = []              # (name, description, status)
        self.failed = []
        self.trace_inputs = {}
        self.seconds = 0.0
        self.log = ''
        self.cmd = ''
        self.n_props = 0

def verify(wd, name, c_source, harness, enforce=None, replace=(), checks=('--bounds-check', '--pointer-check', '--div-by-zero-check'),
           timeout=300, unwind=None, extra=()):
    """returns CbmcResult. enforce: function whose contract is enforced (None: plain assertions in harness)"""
    res = CbmcResult()
    t0 = time.time()
    cfile = os.path.join(wd, name + '.c')
    with open(cfile, 'w') as f:
        f.write(c_source)
    a = os.path.join(wd, name + '.a.gb')
    b = os.path.join(wd, name + '.b.gb')
    rc, out, err = run(['goto-cc', '--function', harness, cfile, '-o', a], 120)
    if rc != 0:
        res.log = 'goto-cc failed:\n' + out[-2000:] + err[-3000:]
        return res
    if enforce:
        cmd = ['goto-instrument', '--dfcc', harness, '--enforce-contract', enforce]
        for g in replace:
            cmd += ['--replace-call-with-contract', g]
        cmd += [a, b]
        rc, out, err = run(cmd, 300)
        if rc != 0:
            res.log = 'goto-instrument failed:\n' + out[-3000:] + err[-3000:]
            return res
        if 'ignoring' in (out + err):
            res.log = 'goto-instrument warned "ignoring":\n' + (out + err)[-2000:]
            return res
        target = b
    else:
        target = a
    cmd = ['cbmc', target, '--function', harness] if not enforce else ['cbmc', target]
    cmd += list(checks) + ['--json-ui', '--trace', '--object-bits', '12'] + list(extra)
    if unwind is not None:
        cmd += ['--unwind', str(unwind), '--unwinding-assertions']
    res.cmd = ' '.join(cmd)
    rc, out, err = run(cmd, timeout)
    res.seconds = time.time() - t0
    if err == 'TIMEOUT':
        res.status = 'undecided'
        res.log = 'cbmc timeout after %ds' % timeout
        return res
    try:
        js = json.loads(out)
    except Exception:
        res.log = 'cbmc output not JSON (rc=%s):\n%s\n%s' % (rc, out[-2000:], err[-2000:])
        return res
    props = None
    msgs = []
    for item in js:
        if 'result' in item:
            props = item['result']
        if item.get('messageType') in ('ERROR', 'WARNING'):
            msgs.append(item.get('messageText', ''))
    if any('ignoring' in m for m in msgs):
        res.log = 'cbmc warned "ignoring": ' + '; '.join(msgs)[:1500]
        return res
    if props is None:
        res.log = 'cbmc produced no result section: ' + '; '.join(msgs)[:2000]
        res.status = 'error'
        return res
    res.n_props = len(props)
    for p in props:
        st = p.get('status')
        res.props.append((p.get('property'), p.get('description'), st))
        if st == 'FAILURE':
            res.failed.append(p)
            # collect harness-level inputs from the trace
            for step in p.get('trace', []):
                if step.get('stepType') == 'assignment' and step.get('assignmentType') == 'variable':
                    lhs = step.get('lhs', '')
                    fn = step.get('sourceLocation', {}).get('function', '')
                    if fn == harness and 'value' in step and re.match(r'^[A-Za-z_]\w*$', lhs):
                        v = step['value']
                        res.trace_inputs.setdefault(p.get('property'), {})[lhs] = v.get('data', v.get('name'))
    if res.n_props == 0:
        res.status = 'error'
        res.log = 'zero properties generated (vacuous)'
    elif res.failed:
        res.status = 'failed'
    else:
        res.status = 'proved'
    return res
