"""Driver: check one property.  usage: check.py <property id> <quick|thorough>

exit 0: every obligation discharged (known findings printed as KNOWN-FINDING lines)
exit 1: an obligation failed with a counterexample  -> VIOLATION property=<id> replay=<path>
exit 2: extraction break / solver unknown / timeout / internal error (never reported as violation)
"""
import os, sys, json, time, importlib, traceback, hashlib, shutil

ROOT = os.path.dirname(os.path.dirname(os.path.abspath(__file__)))
sys.path.insert(0, ROOT)
os.environ.setdefault('GM2V_WORK', os.path.join(ROOT, '.work'))
os.makedirs(os.environ['GM2V_WORK'], exist_ok=True)

from gm2v import ob as OB
from gm2v import native
from gm2v.world import REPO

GLOBAL_ASSUMPTIONS = {
    'A-REAL': 'obligations discharged by back end B treat double arithmetic as exact real arithmetic (no rounding, overflow, NaN); '
              'approximation errors of callees under contract are not propagated into callers',
    'A-LIBM': 'libm functions are uninterpreted symbols constrained only by the instantiated axioms listed per obligation '
              '(sqrt(t)^2=t & sqrt(t)>=0 for t>=0; sin^2+cos^2=1; addition theorems; asin/acos/atan inverse relations)',
    'A-CONST': 'decimal literals that agree with sqrt(2), 1/sqrt(2), sqrt(3/5), sqrt(3/20), pi, pi^2/k, ln 2, ln 4 to >= 14 digits are taken to be those constants',
    'A-FRONT': 'the extractor (gm2v/cxx.py) and interpreter (gm2v/interp.py) are correct; guarded on every full run, where coverage.fidelity_guard is not null, by bit-exact differential execution against the compiled real code (scalar kernels: C01-C03, C10, C11, C20; MSSM model functions on real spectra: C03-C07, C18; THDM model functions on real models: C08, C09, C16), and for all properties by replaying counterexamples on the real code',
    'A-SMT': 'z3 5.1 / z3 4.8.12 / cvc5 1.0.3 are sound',
}

def load_known_findings():
    p = os.path.join(ROOT, 'known_findings.json')
    if not os.path.exists(p):
        return []
    return json.load(open(p)).get('findings', [])

def main(argv):
    if len(argv) < 2:
        print(__doc__)
        return 2
    pid = argv[0]
    tier = argv[1]
    seed = int(os.environ.get('VERIF_SEED', '0') or 0)
    only = argv[2] if len(argv) > 2 else None
    t_start = time.time()
    evidence_path = os.path.join(ROOT, 'evidence', pid + '.json')
    if only or os.path.realpath(REPO) != '/repo':
        # partial runs and runs against a scratch tree never touch the evidence that is committed
        evidence_path = os.path.join(os.environ['GM2V_WORK'], 'evidence-scratch', pid + '.json')
    try:
        mod = importlib.import_module('contracts.' + pid.lower())
    except Exception as e:
        print('ERROR: cannot load contracts for %s: %s' % (pid, e))
        traceback.print_exc()
        return 2
    obs = [o for o in OB.REGISTRY.get(pid, []) if tier == 'thorough' or o.tier == 'quick']
    if only:
        obs = [o for o in obs if only in o.oid]
    if not obs:
        print('ERROR: no obligations registered for %s' % pid)
        return 2
    print('[%s/%s] %d obligation groups, repo=%s' % (pid, tier, len(obs), REPO))
    fid = None
    fid_fn = getattr(mod, 'fidelity', None)
    results = OB.run_obligations(obs, tier, seed, repo=REPO)
    # ---- fidelity guard (bit-exact differential execution of the extractor) ----
    fid_info = None
    if fid_fn is not None and not only:
        try:
            fid_info = fid_fn(tier, seed)
        except Exception as e:
            fid_info = {'ok': False, 'error': '%s' % e, 'trace': traceback.format_exc()[-1500:]}
    # ---- must-fail canary (vacuity guard; thorough tier, full runs on /repo only) ----
    canary_info = None
    if tier == 'thorough' and not only and os.path.realpath(REPO) == '/repo' and not os.environ.get('GM2V_NO_CANARY'):
        from gm2v import canary
        try:
            ok, canary_info = canary.run_canary(pid)
            if ok is None:
                canary_info = {'defined': False}
            elif not ok:
                canary_info['ok'] = False
            else:
                canary_info['ok'] = True
        except Exception as e:
            canary_info = {'defined': True, 'ok': False, 'error': '%s' % e}
    # ---- collect ----
    goals = []
    rules = {}
    assumed = []
    for r in results:
        goals.extend(r['results'])
        for k, v in r['rules'].items():
            rules[k] = rules.get(k, 0) + v
        for a in r['assumed']:
            if a not in assumed:
                assumed.append(a)
    n_total = len(goals)
    by = {s: [g for g in goals if g['status'] == s] for s in (OB.PROVED, OB.FAILED, OB.UNDECIDED, OB.ERROR)}
    known = [k for k in load_known_findings() if k.get('property') == pid and k.get('status', 'open') == 'open']
    known_ids = {k['obligation'] for k in known}
    violations = []
    known_hit = []
    replay_dir = os.environ.get('GM2V_REPLAY_DIR', os.path.join(ROOT, 'replay'))
    os.makedirs(replay_dir, exist_ok=True)
    obmap = {o.oid: o for o in obs}
    replays_done = {}
    for g in by[OB.FAILED]:
        if g['id'] in known_ids:
            known_hit.append(g)
            continue
        # replay on the real code
        oid = next((o for o in obmap if g['id'] == o or g['id'].startswith(o + '.')), None)
        replay_path = os.path.join(replay_dir, g['id'].replace('/', '_') + '.txt')
        reproduced, detail = None, 'no replay oracle for this obligation'
        o = obmap.get(oid)
        replays_done[oid] = replays_done.get(oid, 0) + 1
        if o is not None and o.replay is not None and os.environ.get('GM2V_NO_REPLAY'):
            detail = 'not replayed: GM2V_NO_REPLAY is set (regression run over archived seeds: only the verdict is of interest)'
        elif o is not None and o.replay is not None and replays_done[oid] > 2:
            detail = 'not replayed: two failures of the same obligation group %s were already replayed in this run' % oid
        elif o is not None and o.replay is not None:
            wd = native.workdir('replay')
            try:
                mdl = dict(g.get('model') or {})
                mdl['_goal'] = g['id']
                reproduced, detail = o.replay(mdl, wd)
            except Exception as e:
                reproduced, detail = None, 'replay failed to run: %s' % e
            finally:
                native.cleanup(wd)
        with open(replay_path, 'w') as f:
            f.write('failed obligation: %s\nproperty: %s\nback end: %s (%s)\n' % (g['id'], pid, g['backend'], g['solver']))
            f.write('contract: %s\n' % (o.doc if o else ''))
            f.write('verifier output: %s\ncounterexample model: %s\n' % (g['detail'], json.dumps(g.get('model'), indent=1)))
            f.write('replay on the real code (%s): reproduced=%s\n%s\n' % (REPO, reproduced, detail))
        violations.append((g, replay_path, reproduced))
    status = 0
    for g, path, reproduced in violations:
        tail = '' if reproduced else ' no-failing-input-found'
        print('VIOLATION property=%s replay=%s obligation=%s%s' % (pid, path, g['id'], tail))
        status = 1
    for k in known:
        hit = [g for g in known_hit if g['id'] == k['obligation']]
        if hit:
            print('KNOWN-FINDING: property=%s %s: %s' % (pid, k['obligation'], k['what']))
        else:
            # a listed finding whose obligation no longer fails: say so (not an error)
            print('NOTE: known finding %s did not fail on this tree' % k['obligation'])
    if status == 0:
        if by[OB.ERROR] or by[OB.UNDECIDED]:
            status = 2
        if fid_info is not None and not fid_info.get('ok', False):
            status = 2
        if canary_info is not None and canary_info.get('defined') and not canary_info.get('ok'):
            status = 2
    if canary_info is not None and canary_info.get('defined'):
        print('CANARY %s: %s' % ('fired (the check is not vacuous)' if canary_info.get('ok') else 'DID NOT FIRE (machinery fault, not a violation)', json.dumps(canary_info)[:400]))
    for g in by[OB.ERROR]:
        print('ERROR obligation=%s: %s' % (g['id'], g['detail'][:600]))
    for g in by[OB.UNDECIDED]:
        print('UNDECIDED obligation=%s: %s' % (g['id'], g['detail'][:300]))
    if fid_info is not None and not fid_info.get('ok', False):
        print('FIDELITY-GUARD failed (extractor fault, not a violation): %s' % json.dumps(fid_info)[:800])
    wall = time.time() - t_start
    # bounded stand-ins and listed known findings are reported separately and never counted as discharged proof obligations
    known_ids_hit = {g['id'] for g in known_hit}
    proof_goals = [g for g in goals if g['backend'] != 'bounded' and g['id'] not in known_ids_hit]
    bounded_goals = [g for g in goals if g['backend'] == 'bounded']
    discharged = len([g for g in proof_goals if g['status'] == OB.PROVED])
    samples = [dict(id=g['id'], status=g['status'], backend=g['backend'], solver=g['solver'], seconds=g['seconds'], kind=g['kind'])
               for g in goals[:12]]
    ev = {
        'property_id': pid, 'tier': tier, 'seed': seed, 'level': 'proof',
        'coverage': {
            'obligations': len(proof_goals),
            'discharged': discharged,
            'bounded_checks': [dict(id=g['id'], status=g['status'], detail=g['detail'][:300]) for g in bounded_goals],
            'bounded_note': 'bounded checks are stand-ins with a stated bound; they are not proofs and are not included in obligations/discharged',
            'checker_cmd': 'python3-vt /verif/gm2v/check.py %s %s  (back end B: z3 %s via python API, fallbacks /usr/bin/z3 4.8.12 and cvc5; back end A: cbmc 6.11 + goto-instrument --dfcc)' % (pid, tier, __import__('z3').get_version_string()),
            'trusted_base': sorted(set(list(GLOBAL_ASSUMPTIONS.keys()) + ['python3 interpreter', 'g++ 12 (replay/fidelity only)'])),
            'functions_under_contract': sorted({'%s:%s' % (f, n) for o in obs for (f, n) in o.fns}),
            'obligation_groups': [dict(id=o.oid, contract=o.doc, backend=o.backend, tier=o.tier) for o in obs],
            'per_status': {k: len(v) for k, v in by.items()},
            'known_findings_hit': [g['id'] for g in known_hit],
            'solver_seconds': round(sum(g['seconds'] for g in goals), 2),
            'by_backend': {b: len([g for g in goals if g['backend'] == b]) for b in sorted({g['backend'] for g in goals})},
            'extraction_rule_counts': rules,
            'fidelity_guard': fid_info,
            'must_fail_canary': canary_info,
            'second_solver': {'confirmed': len([g for g in goals if 'confirmed by' in (g['solver'] or '')]),
                              'unconfirmed': len([g for g in goals if 'unknown within' in (g['solver'] or '') or 'z3 finds a model' in (g['solver'] or '')]),
                              'note': 'thorough tier only: every goal discharged by the z3 API is put to the z3 4.8.12 / cvc5 binaries as well; ring identities to z3'},
            'samples': samples,
            'all_goals': [dict(id=g['id'], status=g['status'], solver=g['solver'], seconds=g['seconds'], kind=g['kind']) for g in goals],
            'undecided': [g['id'] for g in by[OB.UNDECIDED]],
            'errors': [dict(id=g['id'], detail=g['detail'][:300]) for g in by[OB.ERROR]],
            'repo': REPO,
        },
        'assumptions': ['%s: %s' % kv for kv in GLOBAL_ASSUMPTIONS.items()] + assumed + list(getattr(mod, 'ASSUMPTIONS', [])),
        'wall_s': round(wall, 2),
        'violations': len(violations),
    }
    os.makedirs(os.path.dirname(evidence_path), exist_ok=True)
    with open(evidence_path, 'w') as f:
        json.dump(ev, f, indent=1, default=str)
    print('[%s/%s] goals=%d proved=%d known=%d failed=%d undecided=%d error=%d wall=%.1fs exit=%d' % (
        pid, tier, n_total, len(by[OB.PROVED]), len(known_hit), len(violations), len(by[OB.UNDECIDED]), len(by[OB.ERROR]), wall, status))
    return status

if __name__ == '__main__':
    sys.exit(main(sys.argv[1:]))
