"""Fidelity guard (assumption A-FRONT): bit-exact differential execution of the extracted code against the compiled real code.

scalar_guard: every free function of the given source files whose parameters are all `double` by value and which returns `double`
is run by the interpreter in float mode and natively (the real .cpp is #included into a driver) on the same pseudo-random arguments;
results must agree bit for bit (NaN == NaN).  A mismatch is an extractor/interpreter fault: the run exits 2, never a violation."""
import math, random, os
from . import native
from .interp import Interp
from .values import EvalError
from .ob import get_world

def candidates(w, files, skip=()):
    out = []
    for file in files:
        seen = set()
        for name, fds in w.funcs.items():
            for fd in fds:
                if w.rel(fd.file) != file or fd.cls is not None or fd.template:
                    continue
                if fd.ret is None or fd.ret.name != 'double' or fd.ret.ptr or fd.ret.ref:
                    continue
                if not fd.params or len(fd.params) > 6:
                    continue
                if any(p.type.name != 'double' or p.type.ref or p.type.ptr for p in fd.params):
                    continue
                last = name.split('::')[-1]
                if last in skip or last.startswith('operator'):
                    continue
                key = (last, len(fd.params))
                if key in seen:
                    continue
                seen.add(key)
                out.append((file, last, len(fd.params), fd))
    return out

def sample(rng, n):
    r = rng.random()
    if r < 0.08:
        v = rng.choice([0.0, 1.0, 0.25, 0.5, 2.0, 4.0])
    elif r < 0.3:
        v = 1.0 + rng.uniform(-1, 1) * 10 ** rng.uniform(-9, -1)
    elif r < 0.36:
        v = -10 ** rng.uniform(-3, 2)
    else:
        v = 10 ** rng.uniform(-5, 5)
    return v

def scalar_guard(files, link=(), n_calls=40, seed=0, skip=(), repo=None, ns_prefix=None, approx=()):
    w = get_world(repo) if repo else get_world(None)
    cands = candidates(w, files, skip)
    if not cands:
        return {'ok': False, 'error': 'no scalar functions found in %s' % (files,)}
    rng = random.Random(1234 + seed)
    wd = native.workdir('fidelity')
    try:
        funcs = []
        for file, name, k, fd in cands:
            q = (ns_prefix or '') + fd.qname.split('::')[-1] if ns_prefix else fd.qname
            call = '%s(%s)' % (q, ','.join('a[%d]' % i for i in range(k)))
            funcs.append(('%s/%d' % (name, k), call, k))
        exe = native.build_scalar_driver(wd, list(files), list(link), funcs)
        calls = []
        for file, name, k, fd in cands:
            for _ in range(n_calls):
                calls.append(('%s/%d' % (name, k), [sample(rng, k) for _ in range(k)], fd))
        nat = native.run_scalar_driver(exe, [(c[0], c[1]) for c in calls])
        mism, errs, done, n_approx = [], 0, 0, 0
        unevaluated = {}
        for (key, args, fd), nv in zip(calls, nat):
            it = Interp(w, mode='float')
            try:
                iv = it.run_single(lambda: it.invoke(fd, list(args), None))
            except Exception as e:
                errs += 1
                unevaluated[key] = str(e)[:80]
                continue
            done += 1
            if key.split('/')[0] in approx:
                # std::complex multiplication/division/sqrt/log are library routines whose last-bit behaviour Python's complex type does not share
                import math as _m
                # outside the domain (an argument exactly 0) both sides leave the finite numbers; which non-finite value results depends on the complex library
                if abs(float(iv) - nv) <= 1e-13 * max(abs(nv), 1e-300) or (iv != iv and nv != nv) or float(iv) == nv or (not _m.isfinite(float(iv)) and not _m.isfinite(nv)):
                    n_approx += 1
                    continue
            if not native.same_double(float(iv), nv):
                mism.append({'fn': key, 'args': args, 'interpreter': repr(iv), 'native': repr(nv)})
        ok = not mism and done >= 0.5 * len(calls)
        return {'ok': ok, 'functions': len(cands), 'calls': len(calls), 'compared_bit_exact': done - len(mism) - n_approx, 'compared_to_1e-13 (functions using std::complex)': n_approx, 'mismatches': mism[:5],
                'not_evaluated_by_interpreter': errs, 'not_evaluated_reasons': unevaluated, 'files': list(files)}
    finally:
        native.cleanup(wd)

# ------------------------------------------------------------------------------------------------ model-level guard (MSSM)
MSSM_FUNCS = [('src/MSSMNoFV/gm2_1loop.cpp', n) for n in ('amu1LChi0', 'amu1LChipm', 'calculate_amu_1loop', 'amu1LWHnu', 'amu1LWHmuL', 'amu1LBHmuL', 'amu1LBHmuR', 'amu1LBmuLmuR',
                                                          'amu1Lapprox', 'tan_beta_cor', 'delta_mu_correction', 'delta_tau_correction', 'delta_bottom_correction')] + \
             [('src/MSSMNoFV/gm2_2loop.cpp', n) for n in ('amu2LFSfapprox', 'amu2LChipmPhotonic', 'amu2LChi0Photonic', 'amu2LaSferm', 'amu2LaCha', 'calculate_amu_2loop')] + \
             [('src/MSSMNoFV/gm2_uncertainty.cpp', n) for n in ('calculate_uncertainty_amu_0loop', 'calculate_uncertainty_amu_1loop', 'calculate_uncertainty_amu_2loop')]
MSSM_MATRICES = ['Sm', 'Stau', 'St', 'Sb', 'Cha', 'Chi', 'SvmL', 'hh', 'Ah', 'Hpm', 'VZ', 'VWm']

MODEL_MAIN = r'''
#include <cstdio>
#include <cmath>
#include <complex>
#include <string>
#include <sstream>
#include <iostream>
#include <Eigen/Core>
#define private public
#define protected public
#include "gm2calc/MSSMNoFV_onshell.hpp"
#undef private
#undef protected
#include "gm2calc/gm2_1loop.hpp"
#include "gm2calc/gm2_2loop.hpp"
#include "gm2calc/gm2_uncertainty.hpp"
#include "gm2calc/gm2_error.hpp"
namespace gm2calc {
@DECLS@
}
static void pm(const char* n, const Eigen::MatrixXd& M) { for (int i = 0; i < M.rows(); i++) for (int j = 0; j < M.cols(); j++) std::printf("R %s(%d,%d) %a\n", n, i, j, M(i, j)); }
int main() {
   for (int k = 0; k < 4; k++) {
      gm2calc::MSSMNoFV_onshell m;
      const Eigen::Matrix<double,3,3> one = Eigen::Matrix<double,3,3>::Identity();
      m.set_alpha_MZ(0.0077552); m.set_alpha_thompson(0.00729735); m.set_g3(std::sqrt(4 * 3.141592653589793 * 0.1184));
      m.get_physical().MFt = 173.34; m.get_physical().MFb = 4.18; m.get_physical().MFm = 0.1056583715; m.get_physical().MFtau = 1.777;
      m.get_physical().MVWm = 80.385; m.get_physical().MVZ = 91.1876;
      const double s1 = (k & 1) ? -1 : 1, s2 = (k & 2) ? -1 : 1;
      m.set_TB(10 + 13 * k); m.set_Ae(1, 1, 100. * k); m.set_Mu(s2 * (350 + 60 * k)); m.set_MassB(s1 * (150 + 35 * k)); m.set_MassWB(300 - 20 * k); m.set_MassG(1000 + 100 * k);
      m.set_mq2((500. + 90 * k) * (500. + 90 * k) * one); m.set_ml2((400. + 70 * k) * (400. + 70 * k) * one); m.set_md2(520. * 520 * one); m.set_mu2(480. * 480 * one); m.set_me2((450. + 30 * k) * (450. + 30 * k) * one);
      m.set_Au(2, 2, 300. * k); m.set_Ad(2, 2, -200. * k); m.set_Ae(2, 2, 150. * k); m.set_MA0(1500 - 100 * k); m.set_scale(454.7);
      try { m.calculate_masses(); } catch (const gm2calc::Error&) { continue; }
      std::printf("POINT %d\n", k);
@DUMP@
@FUNCS@
@MATS@
   }
   return 0;
}
'''

def _leafs(w, cls='MSSMNoFV_onshell'):
    """(symbol name, C++ access expression) for every numeric leaf of an object of class cls (int/bool/enum leaves are named '#path')"""
    import z3
    from .symobj import symbolic_fields
    from .values import Mat, Obj, Cx
    it = Interp(w, mode='sym')
    o = it.new_object(cls, symbolic_fields(None, prefix=''))
    out = []
    def expr(path, v):
        cpp = 'm.' + path
        if isinstance(v, Mat):
            for i in range(v.r):
                for j in range(v.c):
                    el = v.d[i][j]
                    acc = '%s(%d,%d)' % (cpp, i, j) if v.c > 1 else '%s(%d)' % (cpp, i)
                    if isinstance(el, Cx):
                        out.append((str(el.re), 'std::real(%s)' % acc))
                        out.append((str(el.im), 'std::imag(%s)' % acc))
                    else:
                        out.append((str(el), acc))
        elif isinstance(v, Cx):
            out.append((str(v.re), 'std::real(%s)' % cpp))
            out.append((str(v.im), 'std::imag(%s)' % cpp))
        elif isinstance(v, Obj):
            for k2, v2 in v.f.items():
                expr(path + '.' + k2, v2)
        elif z3.is_expr(v):
            out.append((str(v), cpp))
        elif isinstance(v, (bool, int)):
            out.append(('#' + path, 'static_cast<double>(static_cast<int>(%s))' % cpp))
    for k, v in o.f.items():
        if k in ('problems',):
            continue
        expr(k, v)
    return out

def mssm_model_guard(seed=0, repo=None):
    """the MSSM a_mu functions and mass-matrix functions on 4 real spectra: every data member of the real object (after the real calculate_masses()) is copied
    into the interpreter's object; results are compared (bit-exact where no std::complex library routine is involved, else to 1e-12 relative)"""
    import subprocess
    from .symobj import symbolic_fields
    from .values import Mat, Cx
    w = get_world(repo) if repo else get_world(None)
    leafs = _leafs(w)
    decls = '\n'.join('double %s(const MSSMNoFV_onshell&);' % n for f, n in MSSM_FUNCS)
    dump = '\n'.join('      std::printf("L %s %%a\\n", (double)(%s));' % (nm, acc) for nm, acc in leafs)
    funcs = '\n'.join('      try { std::printf("F %s %%a\\n", gm2calc::%s(m)); } catch (const gm2calc::Error&) { std::printf("F %s nan\\n"); }' % (n, n, n) for f, n in MSSM_FUNCS)
    mats = '\n'.join('      { Eigen::MatrixXd M(1,1); auto X = m.get_mass_matrix_%s(); M = Eigen::MatrixXd::Constant(1,1,0); M.resize(0,0); }' % n for n in []) 
    mats = []
    for n in MSSM_MATRICES:
        if n in ('SvmL', 'VZ', 'VWm'):
            mats.append('      std::printf("R %s(0,0) %%a\\n", m.get_mass_matrix_%s());' % (n, n))
        else:
            mats.append('      { const auto X = m.get_mass_matrix_%s(); for (int i = 0; i < X.rows(); i++) for (int j = 0; j < X.cols(); j++) std::printf("R %s(%%d,%%d) %%a\\n", i, j, (double)std::real(X(i, j))); }' % (n, n))
    src = MODEL_MAIN.replace('@DECLS@', decls).replace('@DUMP@', dump).replace('@FUNCS@', funcs).replace('@MATS@', '\n'.join(mats))
    wd = native.workdir('fidelity_model')
    try:
        exe = native.build_against_library(wd, src)
        r = subprocess.run([exe], capture_output=True, text=True, timeout=300)
        if r.returncode != 0:
            return {'ok': False, 'error': 'native model dump failed: %s' % r.stderr[-500:]}
        points, cur = [], None
        for ln in r.stdout.splitlines():
            t = ln.split()
            if t[0] == 'POINT':
                cur = {'L': {}, 'F': {}, 'R': {}}
                points.append(cur)
            elif t[0] in ('L', 'F', 'R'):
                cur[t[0]][t[1]] = float.fromhex(t[2]) if t[2] not in ('nan', '-nan', 'inf', '-inf') else float(t[2])
        exact = approx = 0
        mism, uneval = [], {}
        for pt in points:
            vals = pt['L']
            def cb(path, ty, it, _sf=None):
                return None
            it = Interp(w, mode='float')
            import z3
            sym_it = Interp(w, mode='sym')
            so = sym_it.new_object('MSSMNoFV_onshell', symbolic_fields(None, prefix=''))
            def conv(v):
                if isinstance(v, Mat):
                    return Mat(v.r, v.c, [[conv(x) for x in row] for row in v.d], v.kind, v.cplx)
                if isinstance(v, Cx):
                    return Cx(conv(v.re), conv(v.im))
                if isinstance(v, type(so)):
                    o2 = type(so)(v.cls, {k: conv(x) for k, x in v.f.items()})
                    return o2
                if z3.is_expr(v):
                    nm = str(v)
                    return vals[nm] if nm in vals else 0.0
                return v
            m = conv(so)
            for f, n in MSSM_FUNCS:
                want = pt['F'].get(n)
                try:
                    fd = [x for x in w.find(n, f) if len(x.params) == 1][0]
                    got = it.run_single(lambda: it.invoke(fd, [m], None))
                except Exception as e:
                    uneval[n] = str(e)[:100]
                    continue
                got = float(got)
                if native.same_double(got, want):
                    exact += 1
                elif abs(got - want) <= 1e-12 * max(abs(want), 1e-300):
                    approx += 1
                else:
                    mism.append({'fn': n, 'interpreter': repr(got), 'native': repr(want)})
            for n in MSSM_MATRICES:
                try:
                    X = it.run_single(lambda: it.call_method(m, 'get_mass_matrix_' + n, []))
                except Exception as e:
                    uneval['get_mass_matrix_' + n] = str(e)[:100]
                    continue
                ents = [((0, 0), X)] if not isinstance(X, Mat) else [((i, j), X.d[i][j]) for i in range(X.r) for j in range(X.c)]
                for (i, j), g in ents:
                    g = g.re if isinstance(g, Cx) else g
                    want = pt['R'].get('%s(%d,%d)' % (n, i, j))
                    if want is None:
                        continue
                    if native.same_double(float(g), want):
                        exact += 1
                    elif abs(float(g) - want) <= 1e-12 * max(abs(want), 1e-300):
                        approx += 1
                    else:
                        mism.append({'fn': 'get_mass_matrix_%s(%d,%d)' % (n, i, j), 'interpreter': repr(float(g)), 'native': repr(want)})
        ok = not mism and (exact + approx) > 0 and len(uneval) <= 3
        return {'ok': ok, 'points': len(points), 'compared_bit_exact': exact, 'compared_to_1e-12': approx, 'mismatches': mism[:5], 'not_evaluated': uneval,
                'data_members_copied': len(leafs)}
    finally:
        native.cleanup(wd)


# ------------------------------------------------------------------------------------------------ model-level guard (THDM)
THDM_FUNCS = [('src/THDM/gm2_1loop.cpp', 'calculate_amu_1loop'), ('src/THDM/gm2_2loop.cpp', 'calculate_amu_2loop_bosonic'), ('src/THDM/gm2_2loop.cpp', 'calculate_amu_2loop_fermionic'),
              ('src/THDM/gm2_2loop.cpp', 'calculate_amu_2loop'), ('src/THDM/gm2_uncertainty.cpp', 'calculate_uncertainty_amu_0loop'),
              ('src/THDM/gm2_uncertainty.cpp', 'calculate_uncertainty_amu_1loop'), ('src/THDM/gm2_uncertainty.cpp', 'calculate_uncertainty_amu_2loop')]
THDM_GETTERS = ['get_alpha_h', 'get_beta', 'get_eta', 'get_tan_beta', 'get_zeta_u', 'get_zeta_d', 'get_zeta_l', 'get_v_sqr', 'get_sin_beta', 'get_cos_beta']

THDM_MAIN = r'''
#include <cstdio>
#include <cmath>
#include <complex>
#include <string>
#include <sstream>
#include <iostream>
#include <Eigen/Core>
#define private public
#define protected public
#include "gm2calc/THDM.hpp"
#undef private
#undef protected
#include "gm2calc/gm2_1loop.hpp"
#include "gm2calc/gm2_2loop.hpp"
#include "gm2calc/gm2_uncertainty.hpp"
#include "gm2calc/gm2_error.hpp"
#include "gm2calc/SM.hpp"
int main() {
   for (int k = 0; k < 6; k++) {
      try {
         gm2calc::thdm::Mass_basis b;
         b.yukawa_type = static_cast<gm2calc::thdm::Yukawa_type>(1 + (k % 4));
         b.mh = 125 + 3 * k; b.mH = 300 + 70 * k; b.mA = 280 + 90 * k; b.mHp = 350 + 40 * k;
         b.sin_beta_minus_alpha = (k % 2 ? -1 : 1) * (0.999 - 0.03 * k); b.lambda_6 = 0.1 * k; b.lambda_7 = -0.05 * k; b.tan_beta = 1.5 + 4.5 * k; b.m122 = 4000. + 3000 * k;
         gm2calc::SM sm;
         gm2calc::thdm::Config cfg; cfg.running_couplings = (k % 3 != 0);
         gm2calc::THDM m(b, sm, cfg);
         std::printf("POINT %d\n", k);
@DUMP@
@FUNCS@
@GETTERS@
      } catch (const gm2calc::Error& e) { std::fprintf(stderr, "point %d: %s\n", k, e.what()); }
   }
   return 0;
}
'''

def thdm_model_guard(seed=0, repo=None):
    """the THDM a_mu, uncertainty and getter functions on 6 real mass-basis models (4 Yukawa types, with and without running couplings): every data member of
    the real object is copied into the interpreter's object; results compared bit for bit (1e-12 relative where std::complex/pow library routines are involved)"""
    import subprocess, z3
    from .symobj import symbolic_fields
    from .values import Mat, Cx, Obj
    w = get_world(repo) if repo else get_world(None)
    leafs = [l for l in _leafs(w, 'THDM')]
    dump = '\n'.join('         std::printf("L %s %%a\\n", (double)(%s));' % (nm, acc) for nm, acc in leafs)
    funcs = '\n'.join('         try { std::printf("F %s %%a\\n", gm2calc::%s(m)); } catch (const gm2calc::Error&) { std::printf("F %s nan\\n"); }' % (n, n, n) for f, n in THDM_FUNCS)
    gets = '\n'.join('         std::printf("G %s %%a\\n", (double)m.%s());' % (n, n) for n in THDM_GETTERS)
    src = THDM_MAIN.replace('@DUMP@', dump).replace('@FUNCS@', funcs).replace('@GETTERS@', gets)
    wd = native.workdir('fidelity_thdm')
    try:
        exe = native.build_against_library(wd, src)
        r = subprocess.run([exe], capture_output=True, text=True, timeout=300)
        if r.returncode != 0:
            return {'ok': False, 'error': 'native model dump failed: %s' % r.stderr[-500:]}
        points, cur = [], None
        for ln in r.stdout.splitlines():
            t = ln.split()
            if t[0] == 'POINT':
                cur = {'L': {}, 'F': {}, 'G': {}}
                points.append(cur)
            elif t[0] in ('L', 'F', 'G'):
                cur[t[0]][t[1]] = float.fromhex(t[2]) if t[2] not in ('nan', '-nan', 'inf', '-inf') else float(t[2])
        exact = approx = attempts = 0
        mism, uneval = [], {}
        sym_it = Interp(w, mode='sym')
        for pt in points:
            vals = pt['L']
            so = sym_it.new_object('THDM', symbolic_fields(None, prefix=''))
            def conv(v, path=''):
                if isinstance(v, Mat):
                    return Mat(v.r, v.c, [[conv(x) for x in row] for row in v.d], v.kind, v.cplx)
                if isinstance(v, Cx):
                    return Cx(conv(v.re), conv(v.im))
                if isinstance(v, Obj):
                    return Obj(v.cls, {k: conv(x, (path + '.' if path else '') + k) for k, x in v.f.items()})
                if z3.is_expr(v):
                    return vals.get(str(v), 0.0)
                if isinstance(v, bool):
                    return bool(vals.get('#' + path, float(v)))
                if isinstance(v, int):
                    return int(vals.get('#' + path, float(v)))
                return v
            m = conv(so)
            it = Interp(w, mode='float')
            def cmp_(name, got, want):
                nonlocal exact, approx
                got = float(got)
                if native.same_double(got, want):
                    exact += 1
                elif abs(got - want) <= 1e-12 * max(abs(want), 1e-300):
                    approx += 1
                else:
                    mism.append({'fn': name, 'interpreter': repr(got), 'native': repr(want)})
            for f, n in THDM_FUNCS:
                want = pt['F'].get(n)
                attempts += 1
                try:
                    fd = [x for x in w.find(n, f) if len(x.params) == 1][0]
                    got = it.run_single(lambda: it.invoke(fd, [m], None))
                except Exception as e:
                    uneval[n] = str(e)[:120]
                    continue
                cmp_(n, got, want)
            for n in THDM_GETTERS:
                attempts += 1
                try:
                    got = it.run_single(lambda: it.call_method(m, n, []))
                except Exception as e:
                    uneval[n] = str(e)[:120]
                    continue
                cmp_(n, got, pt['G'][n])
        # the root finder of the running quark masses (boost toms748) is outside the interpreter: models with running couplings are compared only where it is not reached
        ok = not mism and (exact + approx) >= 0.5 * attempts
        return {'ok': ok, 'points': len(points), 'compared_bit_exact': exact, 'compared_to_1e-12': approx, 'mismatches': mism[:5], 'attempted': attempts, 'not_evaluated': uneval,
                'data_members_copied': len(leafs)}
    finally:
        native.cleanup(wd)

# ------------------------------------------------------------------------------------------------ generic native evaluation at a counterexample
HEADERS = {'MSSMNoFV_onshell': 'gm2calc/MSSMNoFV_onshell.hpp', 'THDM': 'gm2calc/THDM.hpp', 'SM': 'gm2calc/SM.hpp'}

def native_model_eval(wd, cls, values, exprs, extra_decls='', repo=None, pre_stmts=''):
    """construct a REAL object of class cls, overwrite its data members with `values` ({leaf name: number}; names as in the counterexample, an optional
    'm.' prefix is ignored; complex leaves as name.re / name.im), evaluate the C++ expressions `exprs` (object is called m) and return their values.
    Members not mentioned keep the values of a default-constructed object."""
    import subprocess, re
    w = get_world(repo) if repo else get_world(None)
    leafs = dict(_leafs(w, cls))
    vals = {}
    for k, v in values.items():
        k2 = k[2:] if k.startswith('m.') else k
        vals[k2] = float(v)
    assigns = []
    cplx = {}
    for nm, acc in leafs.items():
        if nm not in vals:
            continue
        mm = re.match(r'std::(real|imag)\((.*)\)$', acc)
        if mm:
            cplx.setdefault(mm.group(2), {})[mm.group(1)] = vals[nm]
        elif acc.startswith('static_cast'):
            continue
        else:
            assigns.append('   %s = %s;' % (acc, float(vals[nm]).hex()))
    for acc, parts in cplx.items():
        assigns.append('   %s = std::complex<double>(%s, %s);' % (acc, float(parts.get('real', 0.0)).hex(), float(parts.get('imag', 0.0)).hex()))
    body = '\n'.join('   try { std::printf("%%a\\n", (double)(%s)); } catch (const gm2calc::Error& e) { std::printf("throw %%s\\n", e.what()); }' % e for e in exprs)
    src = '''
#include <cstdio>
#include <cmath>
#include <complex>
#include <string>
#include <sstream>
#include <iostream>
#include <Eigen/Core>
#define private public
#define protected public
#include "%s"
#undef private
#undef protected
#include "gm2calc/gm2_1loop.hpp"
#include "gm2calc/gm2_2loop.hpp"
#include "gm2calc/gm2_uncertainty.hpp"
#include "gm2calc/gm2_error.hpp"
%s
int main() {
   gm2calc::%s m;
%s
%s
%s
   return 0;
}
''' % (HEADERS[cls], extra_decls, cls, '\n'.join(assigns), pre_stmts, body)
    exe = native.build_against_library(wd, src, name='ceval')
    r = subprocess.run([exe], capture_output=True, text=True, timeout=120)
    out = []
    for ln in r.stdout.splitlines():
        if ln.startswith('throw'):
            out.append(ln)
        else:
            try:
                out.append(float.fromhex(ln) if ln not in ('nan', '-nan', 'inf', '-inf') else float(ln))
            except ValueError:
                out.append(ln)
    return out, len(assigns)

def replay_equality(wd, cls, model, expr, tol=1e-9, extra_decls=''):
    """generic replay of a failed `code value == contract value' goal: the real function is evaluated at the counterexample's data members;
    reproduced iff the real value differs from what the contract demands there"""
    viol = (model or {}).get('_violated_equality')
    vals = (model or {}).get('_float', {})
    if not viol:
        return None, 'the verifier gave no evaluated equality for this goal'
    out, n = native_model_eval(wd, cls, vals, [expr], extra_decls=extra_decls)
    if not out or not isinstance(out[0], float):
        return None, 'real code did not return a number at the counterexample: %s' % (out,)
    real, want, code = out[0], viol['contract_side'], viol['code_side']
    scale = max(abs(real), abs(want), 1e-300)
    off = abs(real - want) > tol * scale
    agree = abs(real - code) <= 1e-6 * max(abs(real), abs(code), 1e-300)
    return bool(off), 'real %s = %r at the counterexample (%d data members set); the contract demands %r; the extracted code gives %r%s' % (
        expr, real, n, want, code, '' if agree else '  [real and extracted value differ: extractor fault?]')
