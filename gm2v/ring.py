"""Back end B': ring normalisation (sympy) for equality goals that are rational-function identities in the inputs and in
uninterpreted-function atoms.  lhs - rhs is brought over a common denominator and expanded; the goal is proved iff the
numerator is the zero polynomial.  No case analysis, no inequalities: anything else is left to the SMT back end."""
import sympy, z3

class NotRing(Exception):
    pass

def to_sympy(e, cache):
    i = e.get_id()
    if i in cache:
        return cache[i]
    r = _conv(e, cache)
    cache[i] = r
    return r

def _conv(e, cache):
    if z3.is_rational_value(e):
        return sympy.Rational(e.numerator_as_long(), e.denominator_as_long())
    if z3.is_int_value(e):
        return sympy.Integer(e.as_long())
    if z3.is_const(e) and e.decl().kind() == z3.Z3_OP_UNINTERPRETED:
        return sympy.Symbol(e.decl().name().replace('.', '_').replace('(', '_').replace(')', '_').replace(',', '_').replace('!', '_'))
    k = e.decl().kind()
    ch = [to_sympy(c, cache) for c in e.children()]
    if k == z3.Z3_OP_ADD:
        return sympy.Add(*ch)
    if k == z3.Z3_OP_SUB:
        r = ch[0]
        for c in ch[1:]:
            r = r - c
        return r
    if k == z3.Z3_OP_MUL:
        return sympy.Mul(*ch)
    if k == z3.Z3_OP_UMINUS:
        return -ch[0]
    if k == z3.Z3_OP_DIV:
        return ch[0] / ch[1]
    if k == z3.Z3_OP_POWER:
        return ch[0] ** ch[1]
    if k == z3.Z3_OP_TO_REAL:
        return ch[0]
    if k == z3.Z3_OP_UNINTERPRETED:
        return sympy.Function(e.decl().name())(*ch)
    raise NotRing('operator %s' % e.decl().name())

def identity(lhs, rhs, subs=None):
    """True iff lhs - rhs normalises to 0 (after the substitutions subs: z3 const -> z3 expr)"""
    cache = {}
    d = to_sympy(z3.simplify(lhs - rhs) if False else (lhs - rhs), cache)
    if subs:
        d = d.subs({to_sympy(k, cache): to_sympy(v, cache) for k, v in subs.items()})
    if d == 0:
        return True
    num, den = sympy.fraction(sympy.together(d))
    num = sympy.expand(num)
    return num == 0

def witness(pairs, subs=None, seed=1):
    """a rational point (symbols and uninterpreted-function atoms as free values) where some lhs - rhs != 0"""
    import random
    rng = random.Random(seed)
    for a, b in pairs:
        cache = {}
        d = to_sympy(a - b, cache)
        if subs:
            d = d.subs({to_sympy(k, cache): to_sympy(v, cache) for k, v in subs.items()})
        atoms = sorted(d.atoms(sympy.Symbol) | d.atoms(sympy.core.function.AppliedUndef), key=str)
        for _ in range(5):
            # innermost-first substitution: function atoms get independent values
            point = {}
            expr = d
            fa = sorted(expr.atoms(sympy.core.function.AppliedUndef), key=lambda t: -sympy.count_ops(t))
            for f in fa:
                val = sympy.Rational(rng.randint(2, 40), rng.randint(3, 17))
                expr = expr.subs(f, val)
                point[str(f)[:60]] = str(val)
            for s_ in sorted(expr.atoms(sympy.Symbol), key=str):
                val = sympy.Rational(rng.randint(2, 40), rng.randint(3, 17))
                expr = expr.subs(s_, val)
                point[str(s_)] = str(val)
            try:
                if sympy.simplify(expr) != 0:
                    return dict(list(point.items())[:12])
            except Exception:
                continue
    return None
