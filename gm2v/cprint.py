"""Back end A front half: print extracted scalar functions as a C translation unit for CBMC,
injecting __CPROVER_requires/ensures/assigns contracts.  The C text is pretty-printed from the same
AST the interpreter runs (which is differentially tested bit-for-bit against the compiled real code).

What the printing drops/changes (each counted as a must-fire rule in the evidence):
  noexcept/constexpr/inline/namespaces; references -> pointers; overloads renamed <name>_<arity>;
  templates sqr/cube/pow3/pow4/is_zero/is_equal/is_equal_rel instantiated at double;
  std::tuple<double,double> -> struct; function-local statics hoisted to file scope;
  ERROR/WARNING/VERBOSE(...) -> dropped (stderr output is not program state); libm -> gm2v_* externs
  with assumed contracts; model objects -> opaque pointers.
"""
import math
from .cxx import *
from .world import strip_ns

class PrintError(Exception):
    pass

LIBM = {'std::log': 'gm2v_log', 'log': 'gm2v_log', 'std::log1p': 'gm2v_log1p', 'std::sqrt': 'gm2v_sqrt', 'sqrt': 'gm2v_sqrt',
        'std::atan2': 'gm2v_atan2', 'std::acos': 'gm2v_acos', 'std::asin': 'gm2v_asin', 'std::atan': 'gm2v_atan',
        'std::sin': 'gm2v_sin', 'std::cos': 'gm2v_cos', 'std::exp': 'gm2v_exp', 'std::fmod': 'gm2v_fmod',
        'std::pow': 'gm2v_pow', 'pow': 'gm2v_pow', 'std::modf': 'gm2v_modf'}
EXACT = {'std::abs': 'fabs', 'std::fabs': 'fabs', 'fabs': 'fabs', 'abs': 'fabs',
         'std::isfinite': 'isfinite', 'std::isnan': 'isnan', 'std::isinf': 'isinf'}

PRELUDE = r'''
#include <math.h>
#include <stddef.h>
typedef struct { double a0, a1; } gm2v_tup2;
struct gm2v_obj;
size_t gm2v_nondet_size(void) { size_t gm2v_s; return gm2v_s; }
/* assumed contract of std::string::copy(dst, n): writes min(n, size()) characters to dst[0 .. min(n,size())) and returns that count.
   Only the first and the last written byte are touched here: in-bounds-ness of the contiguous range follows from those two. */
size_t gm2v_string_copy(size_t size, char *dst, size_t n)
{
  size_t cnt = (n < size) ? n : size;
  if (cnt > 0) { dst[0] = 'x'; dst[cnt - 1] = 'x'; }
  return cnt;
}
'''

class CPrinter:
    def __init__(self, world, contracts=None, externs=None, rename=None):
        """contracts: name(mangled or plain) -> list of clause strings (verbatim __CPROVER_...(..))
        externs: set of plain function names that are NOT printed with a body (callee by contract)"""
        self.w = world
        self.contracts = contracts if contracts is not None else {}
        self.externs = set(externs or ())
        self.done = {}
        self.order = []
        self.protos = []
        self.globals = {}
        self.hoisted = []
        self.rules = {}
        self.used_libm = set()
        self.extern_mangled = {}
        self.ghost_decls = {}
        self.ghost_fns = set()
        self.file = None

    def fire(self, r):
        self.rules[r] = self.rules.get(r, 0) + 1

    # ---- types
    def ctype(self, ty, for_param=False):
        if ty is None:
            return 'void'
        n = strip_ns(ty.name)
        base = None
        if n in ('double', 'T', 'float'):
            base = 'double'
        elif n in ('int', 'unsigned', 'long', 'unsigned int', 'short', 'char', 'size_t'):
            base = {'unsigned int': 'unsigned'}.get(n, n)
        elif n == 'bool':
            base = '_Bool'
        elif n == 'void':
            base = 'void'
        elif n == 'std::tuple':
            base = 'gm2v_tup2'
            self.fire('tuple->struct')
        elif n in self.w.classes:
            self.fire('object->opaque-pointer')
            return 'const struct gm2v_obj *'
        elif n in self.w.enums or n.split('::')[-1] in self.w.enums:
            base = 'int'
        else:
            raise PrintError('type %s not printable' % n)
        if ty.ptr:
            base += ' ' + '*' * ty.ptr
        if ty.ref and not (ty.const and for_param):
            self.fire('reference->pointer')
            base += ' *'
        return base

    # ---- naming
    def mangle(self, fd):
        key = strip_ns(fd.qname)
        last = key.split('::')[-1]
        sibs = [f for f in self.w.by_last.get(last, []) if strip_ns(f.qname) == key and f.template is None or f is fd]
        sibs = [f for f in self.w.funcs.get(key, [])]
        ar = {len(f.params) for f in sibs}
        name = key.replace('::', '__')
        if len(sibs) > 1:
            self.fire('overload-renamed')
            same = [f for f in sibs if len(f.params) == len(fd.params)]
            if len(same) > 1:
                # same arity: distinguish by parameter type names
                return name + '_' + '_'.join(strip_ns(p.type.name).split('::')[-1] for p in fd.params)
            return '%s_%d' % (name, len(fd.params))
        return name

    def resolve(self, name, nargs, cur_file, argtypes=None):
        s = strip_ns(name)
        fds = [f for f in self.w.find(s) if (f.cls is None or f.static)]
        fds = [f for f in fds if len([p for p in f.params if p.default is None]) <= nargs <= len(f.params)]
        # anonymous-namespace (internal linkage) functions are visible in their own file only
        fds = [f for f in fds if not (getattr(f, 'anon', False) and f.file != cur_file and f.file.endswith('.cpp'))]
        if argtypes:
            def ok(f):
                for p, t in zip(f.params, argtypes):
                    n = strip_ns(p.type.name)
                    if t in ('double', 'int', '_Bool') and (n.startswith('Eigen') or n == 'std::complex' or n in self.w.classes):
                        return False
                    if t == 'obj' and n in ('double', 'int', 'bool'):
                        return False
                return True
            fds2 = [f for f in fds if ok(f)]
            if fds2:
                fds = fds2
        same = [f for f in fds if f.file == cur_file]
        if same:
            fds = same
        if not fds:
            return None
        if len(fds) > 1:
            # identical duplicates in headers? take first .cpp
            cpp = [f for f in fds if f.file.endswith('.cpp')]
            if len(cpp) >= 1:
                fds = cpp[:1] if len(cpp) == 1 else cpp
        if len(fds) > 1:
            raise PrintError('ambiguous call %s/%d' % (name, nargs))
        return fds[0]

    # ---- functions
    def add_function(self, fd):
        m = self.mangle(fd)
        if m in self.done:
            return m
        self.done[m] = None
        plain = strip_ns(fd.qname).split('::')[-1]
        env = {}
        params = []
        for p in fd.params:
            if strip_ns(p.type.name) == 'std::string' and not p.type.ptr:
                # a std::string parameter is represented by its (arbitrary) size, like a std::string local
                nm = p.name or ('gm2v_unused%d' % len(params))
                self.fire('std::string-parameter->ghost-size')
                env[nm] = ('string', 'string')
                params.append('size_t %s__size' % nm)
                continue
            cty = self.ctype(p.type, for_param=True)
            nm = p.name or ('gm2v_unused%d' % len(params))
            isref = p.type.ref and not p.type.const
            env[nm] = ('ref' if isref else 'val', self.simple_type(p.type))
            params.append('%s %s' % (cty, nm))
        head = '%s %s(%s)' % (self.ctype(fd.ret), m, ', '.join(params) if params else 'void')
        clauses = self.contracts.get(m) or self.contracts.get(plain) or []
        if plain in self.externs or m in self.externs:
            self.extern_mangled[plain] = m
            self.done[m] = head + '\n' + '\n'.join(clauses) + ';\n'
            self.order.append(m)
            return m
        body = self.w.body(fd)
        saved_file = self.file
        self.file = fd.file
        self.cur_fn = m
        try:
            txt = self.block(body, env, 0, fd)
        finally:
            self.file = saved_file
        self.done[m] = head + '\n' + '\n'.join(clauses) + ('\n' if clauses else '') + txt + '\n'
        self.order.append(m)
        return m

    def simple_type(self, ty):
        if ty is None:
            return 'void'
        n = strip_ns(ty.name)
        if n in ('double', 'T', 'float'):
            return 'double'
        if n in ('int', 'unsigned', 'long', 'unsigned int', 'size_t'):
            return 'int'
        if n == 'bool':
            return '_Bool'
        if n == 'std::tuple':
            return 'tup2'
        if n in self.w.classes:
            return 'obj'
        return 'double'

    def block(self, b, env, ind, fd):
        env = dict(env)
        out = ['  ' * ind + '{']
        for s in b.stmts:
            out.append(self.stmt(s, env, ind + 1, fd))
        out.append('  ' * ind + '}')
        return '\n'.join(x for x in out if x is not None and x != '')

    def stmt(self, s, env, ind, fd):
        I = '  ' * ind
        k = type(s)
        if k is Block:
            return self.block(s, env, ind, fd)
        if k is Decl:
            return self.decl(s, env, ind, fd)
        if k is DeclGroup:
            return '\n'.join(self.decl(d, env, ind, fd) for d in s.decls)
        if k is ExprStmt:
            if isinstance(s.e, Log):
                self.fire('log-macro-dropped')
                return I + '/* %s(...) dropped */;' % s.e.level
            if isinstance(s.e, Assign) and isinstance(s.e.l, Call) and isinstance(s.e.l.f, Id) and strip_ns(s.e.l.f.name) == 'std::tie':
                self.fire('tie->struct')
                r = self.expr(s.e.r, env)
                a0 = self.expr(s.e.l.args[0], env)
                a1 = self.expr(s.e.l.args[1], env)
                return I + '{ gm2v_tup2 gm2v_t = %s; %s = gm2v_t.a0; %s = gm2v_t.a1; }' % (r, a0, a1)
            if isinstance(s.e, Call) and isinstance(s.e.f, Id) and strip_ns(s.e.f.name) == 'std::swap':
                a0 = self.expr(s.e.args[0], env)
                a1 = self.expr(s.e.args[1], env)
                self.fire('swap-expanded')
                return I + '{ double gm2v_s = %s; %s = %s; %s = gm2v_s; }' % (a0, a0, a1, a1)
            return I + self.expr(s.e, env) + ';'
        if k is If:
            t = I + 'if (%s)\n%s' % (self.expr(s.c, env), self.stmt_as_block(s.a, env, ind, fd))
            if s.b is not None:
                t += '\n' + I + 'else\n' + self.stmt_as_block(s.b, env, ind, fd)
            return t
        if k is Return:
            if s.e is None:
                return I + 'return;'
            return I + 'return %s;' % self.expr(s.e, env)
        if k is For:
            env2 = dict(env)
            init = self.stmt(s.init, env2, 0, fd).strip() if s.init is not None else ';'
            c = self.expr(s.c, env2) if s.c is not None else ''
            st = self.expr(s.step, env2) if s.step is not None else ''
            return I + 'for (%s %s; %s)\n%s' % (init, c, st, self.stmt_as_block(s.body, env2, ind, fd))
        if k is While:
            return I + 'while (%s)\n%s' % (self.expr(s.c, env), self.stmt_as_block(s.body, env, ind, fd))
        if k is Switch:
            out = [I + 'switch (%s) {' % self.expr(s.e, env)]
            for labels, stmts in s.cases:
                for lab in labels:
                    out.append(I + ('default:' if lab is None else 'case %s:' % self.expr(lab, env)))
                for st in stmts:
                    out.append(self.stmt(st, env, ind + 1, fd))
            out.append(I + '}')
            return '\n'.join(out)
        if k is Break:
            return I + 'break;'
        if k is Continue:
            return I + 'continue;'
        if k is Empty:
            return ''
        raise PrintError('statement %s not printable (function %s)' % (k.__name__, fd.qname))

    def stmt_as_block(self, s, env, ind, fd):
        if isinstance(s, Block):
            return self.block(s, env, ind, fd)
        return '  ' * ind + '{\n' + self.stmt(s, dict(env), ind + 1, fd) + '\n' + '  ' * ind + '}'

    def decl(self, d, env, ind, fd):
        I = '  ' * ind
        ty = d.type
        n = strip_ns(ty.name)
        if n == 'std::string':
            # a std::string local is represented by its (arbitrary) size; its characters are irrelevant for memory safety
            self.fire('std::string->ghost-size')
            env[d.name] = ('string', 'string')
            return I + 'const size_t %s__size = gm2v_nondet_size();' % d.name
        if n == 'auto':
            src = d.init if d.init is not None else (d.ctor_args[0] if d.ctor_args else None)
            st = self.etype(src, env)
            cty = {'double': 'double', 'int': 'int', '_Bool': '_Bool', 'tup2': 'gm2v_tup2'}.get(st)
            if cty is None:
                raise PrintError('cannot infer auto type for %s' % d.name)
            self.fire('auto-inferred')
        else:
            cty = self.ctype(Type(ty.name, ty.args, ty.const, False, ty.ptr))
            st = self.simple_type(ty)
        if ty.ref:
            raise PrintError('local reference %s' % d.name)
        const = 'const ' if ty.const and d.dims is None else ''
        env[d.name] = ('val', st)
        if d.is_static or getattr(ty, 'is_static', False):
            # hoist function-local static to file scope so that frame conditions see it
            self.fire('local-static-hoisted')
            gname = '%s__%s' % (self.cur_fn, d.name)
            init = ''
            if d.init is not None:
                init = ' = ' + self.expr(d.init, env)
            self.hoisted.append('%s %s%s;' % (cty if not ty.const else 'const ' + cty, gname, init))
            env[d.name] = ('global:' + gname, st)
            return I + '/* static %s hoisted to file scope as %s */' % (d.name, gname)
        if d.dims is not None:
            items = d.init.items if isinstance(d.init, InitList) else (d.ctor_args or [])
            dim = '' if d.dims[0] is None else self.expr(d.dims[0], env)
            env[d.name] = ('arr', st)
            return I + '%s%s %s[%s] = { %s };' % ('const ' if ty.const else '', cty, d.name, dim, ', '.join(self.expr(x, env) for x in items))
        if d.init is not None:
            return I + '%s%s %s = %s;' % (const, cty, d.name, self.expr(d.init, env))
        if d.ctor_args:
            return I + '%s%s %s = %s;' % (const, cty, d.name, self.expr(d.ctor_args[0], env))
        return I + '%s %s;' % (cty, d.name)

    # ---- expression types (just enough for auto and overloads)
    def etype(self, e, env):
        k = type(e)
        if k is Num:
            return 'double' if e.isfloat else 'int'
        if k is BoolLit:
            return '_Bool'
        if k is Id:
            if e.name in env:
                return env[e.name][1]
            g = self.global_lookup(e.name)
            if g is not None:
                return g[1]
            return 'double'
        if k is Unary:
            if e.op == '!':
                return '_Bool'
            return self.etype(e.e, env)
        if k is Binary:
            if e.op in ('<', '>', '<=', '>=', '==', '!=', '&&', '||'):
                return '_Bool'
            a, b = self.etype(e.l, env), self.etype(e.r, env)
            return 'double' if 'double' in (a, b) else 'int'
        if k is Cond:
            a, b = self.etype(e.a, env), self.etype(e.b, env)
            return 'double' if 'double' in (a, b) else a
        if k is Call and isinstance(e.f, Id):
            s = strip_ns(e.f.name)
            if s in LIBM or s in ('std::abs', 'std::fabs', 'std::max', 'std::min', 'sqr', 'pow3', 'pow4', 'cube'):
                return 'double'
            if s in ('std::isfinite', 'std::isnan', 'std::isinf'):
                return '_Bool'
            if s == 'std::make_tuple':
                return 'tup2'
            if s.startswith('std::numeric_limits'):
                return 'double'
            fd = self.resolve(s, len(e.args), self.file, [self.etype(a, env) for a in e.args])
            if fd is not None:
                return self.simple_type(fd.ret)
            return 'double'
        if k is Cast:
            return self.simple_type(e.type)
        if k is Index:
            return 'double'
        if k is Assign:
            return self.etype(e.l, env)
        return 'double'

    def global_lookup(self, name):
        s = strip_ns(name).split('::')[-1]
        files = [self.file] + [f for f in self.w.filevars if f != self.file]
        for f in files:
            vd = self.w.filevars.get(f, {}).get(s)
            if vd is not None:
                key = (f, s)
                if key not in self.globals:
                    self.globals[key] = None
                    d = vd.decl
                    st = self.simple_type(d.type) if strip_ns(d.type.name) != 'auto' else 'double'
                    gname = 'gm2v_g_%s_%s' % (abs(hash(f)) % 9973, s) if False else s
                    # evaluate the initializer with the float interpreter: C needs constant initialisers
                    from .interp import Interp
                    it = Interp(self.w, mode='float')
                    val = it.run_single(lambda: it.file_var_in(f, s))
                    self.fire('file-const-evaluated')
                    if isinstance(val, float):
                        lit = val.hex() if val == val else 'NAN'
                    elif isinstance(val, bool):
                        lit = '1' if val else '0'
                    elif isinstance(val, int):
                        lit = str(val)
                    else:
                        raise PrintError('file-scope variable %s not scalar' % s)
                    cty = {'double': 'double', 'int': 'int', '_Bool': '_Bool'}[st]
                    qual = 'static const ' if d.type.const else 'static '
                    self.globals[key] = ('%s%s %s = %s;' % (qual, cty, s, lit), st)
                    if not d.type.const:
                        self.fire('mutable-file-scope-variable')
                return (s, self.globals[key][1] if self.globals[key] else 'double')
        return None

    # ---- expressions
    PREC = {'||': 4, '&&': 5, '|': 6, '^': 7, '&': 8, '==': 9, '!=': 9, '<': 10, '>': 10, '<=': 10, '>=': 10,
            '<<': 11, '>>': 11, '+': 12, '-': 12, '*': 13, '/': 13, '%': 13}

    def expr(self, e, env):
        k = type(e)
        if k is Num:
            if e.isfloat:
                t = e.text.rstrip('fFlL')
                return t
            return e.text.rstrip('uUlL') if not isinstance(e.value, int) or e.text != 'nullptr' else '0'
        if k is BoolLit:
            return '1' if e.value else '0'
        if k is Id:
            nm = e.name
            if nm in env:
                kind = env[nm][0]
                if kind == 'ref':
                    return '(*%s)' % nm
                if kind.startswith('global:'):
                    return kind[7:]
                return nm
            g = self.global_lookup(nm)
            if g is not None:
                return g[0]
            s = strip_ns(nm)
            if s in self.w.enumerators:
                return str(self.w.enumerators[s])
            for kk in range(len(s.split('::'))):
                key = '::'.join(s.split('::')[kk:])
                if key in self.w.enumerators:
                    return str(self.w.enumerators[key])
            raise PrintError('unknown identifier %s' % nm)
        if k is Unary:
            if e.op in ('-', '+', '!'):
                return '(%s%s)' % (e.op, self.expr(e.e, env))
            if e.op in ('++', '--'):
                return '(%s%s)' % (e.op, self.expr(e.e, env))
            if e.op == '*':
                return '(*%s)' % self.expr(e.e, env)
            raise PrintError('unary ' + e.op)
        if k is Postfix:
            return '(%s%s)' % (self.expr(e.e, env), e.op)
        if k is Binary:
            return '(%s %s %s)' % (self.expr(e.l, env), e.op, self.expr(e.r, env))
        if k is Cond:
            return '(%s ? %s : %s)' % (self.expr(e.c, env), self.expr(e.a, env), self.expr(e.b, env))
        if k is Assign:
            return '%s %s %s' % (self.expr(e.l, env), e.op, self.expr(e.r, env))
        if k is Index:
            return '%s[%s]' % (self.expr(e.e, env), self.expr(e.i, env))
        if k is Cast:
            return '((%s)(%s))' % (self.ctype(e.type), self.expr(e.e, env))
        if k is Construct:
            n = strip_ns(e.type.name)
            if n in ('double', 'int', 'bool', 'unsigned') and len(e.args) == 1:
                return '((%s)(%s))' % (self.ctype(e.type), self.expr(e.args[0], env))
            raise PrintError('construct ' + n)
        if k is Call:
            return self.call(e, env)
        if k is Log:
            self.fire('log-macro-dropped')
            return '((void)0)'
        if k is Str:
            return '"%s"' % e.value
        if k is Chr:
            return "'%s'" % e.value
        raise PrintError('expression %s not printable' % k.__name__)

    def _arg_expr(self, a, env, callee, i, nargs):
        """argument expression; an argument bound to a std::string parameter of a function of the sources becomes the size of that string (arbitrary for a temporary)"""
        try:
            cands = [f for f in self.w.find(callee) if len(f.params) == nargs]
        except Exception:
            cands = []
        if cands and all(strip_ns(f.params[i].type.name) == 'std::string' and not f.params[i].type.ptr for f in cands):
            if isinstance(a, Id) and env.get(a.name, ('', ''))[0] == 'string':
                return '%s__size' % a.name
            self.fire('std::string-temporary->ghost-size')
            return 'gm2v_nondet_size()'
        return self.expr(a, env)

    def ghost(self, name, e, env, cty='double'):
        # the value a pure callee returns on the (unchanged, const) model: a ghost constant
        lits = []
        for a in e.args:
            if isinstance(a, Num) and not a.isfloat:
                lits.append(str(a.value))
            elif isinstance(a, Id) and env.get(a.name, ('', ''))[1] == 'obj':
                continue
            else:
                raise PrintError('ghost call %s with non-literal argument' % name)
        g = 'gm2v_ghost_' + name.replace('::', '__') + ''.join('_' + l for l in lits)
        self.fire('callee->ghost-value')
        if g not in self.ghost_decls:
            self.ghost_decls[g] = '%s %s;' % (cty, g)
        return g

    def call(self, e, env):
        if isinstance(e.f, Member) and isinstance(e.f.e, Id) and env.get(e.f.e.name, ('', ''))[0] == 'string':
            if e.f.name == 'copy' and len(e.args) == 2:
                self.fire('std::string::copy->contract')
                return 'gm2v_string_copy(%s__size, %s, %s)' % (e.f.e.name, self.expr(e.args[0], env), self.expr(e.args[1], env))
            if e.f.name in ('size', 'length'):
                return '%s__size' % e.f.e.name
            raise PrintError('std::string::%s' % e.f.name)
        if isinstance(e.f, Member) and isinstance(e.f.e, Id) and env.get(e.f.e.name, ('', ''))[1] == 'obj':
            return self.ghost(e.f.name, e, env)
        if not isinstance(e.f, Id):
            raise PrintError('member/indirect call not printable')
        s = strip_ns(e.f.name)
        if s in self.ghost_fns or s.split('::')[-1] in self.ghost_fns:
            return self.ghost(s.split('::')[-1], e, env)
        if s in ('std::min', 'std::max', 'std::fmin', 'std::fmax') and len(e.args) == 1 and isinstance(e.args[0], InitList) and e.args[0].items:
            # std::min({a, b, c}): fold into nested two-argument forms
            items = [self.expr(x, env) for x in e.args[0].items]
            self.fire('std::min/max-of-initializer-list')
            acc = items[0]
            for it_ in items[1:]:
                acc = ('((%s < %s) ? %s : %s)' % (it_, acc, it_, acc)) if 'min' in s else ('((%s < %s) ? %s : %s)' % (acc, it_, it_, acc))
            return acc
        args = [self._arg_expr(a, env, s, i, len(e.args)) for i, a in enumerate(e.args)]
        if s.startswith('std::numeric_limits') and e.f.targs and isinstance(e.f.targs[0], Type) and strip_ns(e.f.targs[0].name) == 'int':
            return {'min': '(-2147483647 - 1)', 'max': '2147483647', 'lowest': '(-2147483647 - 1)'}[s.split('::')[-1]]
        if s.startswith('std::numeric_limits'):
            what = s.split('::')[-1]
            self.fire('numeric_limits')
            return {'epsilon': '0x1p-52', 'quiet_NaN': 'NAN', 'max': '0x1.fffffffffffffp+1023', 'infinity': 'INFINITY',
                    'min': '0x1p-1022'}[what]
        if s in EXACT:
            return '%s(%s)' % (EXACT[s], ', '.join(args))
        if s in LIBM:
            self.used_libm.add(LIBM[s])
            self.fire('libm->extern:' + LIBM[s])
            return '%s(%s)' % (LIBM[s], ', '.join(args))
        if s in ('std::max', 'std::fmax') and len(args) == 2:
            self.fire('std::max-expanded')
            return '((%s < %s) ? %s : %s)' % (args[0], args[1], args[1], args[0])
        if s in ('std::min', 'std::fmin') and len(args) == 2:
            self.fire('std::min-expanded')
            return '((%s < %s) ? %s : %s)' % (args[1], args[0], args[1], args[0])
        if s == 'std::make_tuple':
            self.fire('tuple->struct')
            return '((gm2v_tup2){ %s, %s })' % (args[0], args[1])
        fd = self.resolve(s, len(args), self.file, [self.etype(a, env) for a in e.args])
        if fd is None:
            raise PrintError('call to unknown function %s' % s)
        if fd.template is not None:
            self.fire('template-instantiated:' + strip_ns(fd.qname))
        m = self.add_function(fd)
        pa = []
        for a, p, raw in zip(args, fd.params, e.args):
            if p.type.ref and not p.type.const:
                if isinstance(raw, Id) and raw.name in env and env[raw.name][0] == 'ref':
                    pa.append(raw.name)
                else:
                    pa.append('&' + a)
            else:
                pa.append(a)
        return '%s(%s)' % (m, ', '.join(pa))

    # ---- output
    def source(self, extra_decls='', harness=''):
        out = [PRELUDE]
        out.append(LIBM_DECLS)
        for key, g in self.globals.items():
            if g:
                out.append(g[0])
        out.extend(self.hoisted)
        out.extend(self.ghost_decls.values())
        out.append(extra_decls)
        # prototypes first
        for m in self.order:
            head = self.done[m].split('\n')[0]
            out.append(head + ';')
        for m in self.order:
            out.append(self.done[m])
        out.append(harness)
        return '\n'.join(out)

# assumed contracts of libm (A-LIBM).  Functional consistency through uninterpreted functions.
LIBM_DECLS = r'''
double __CPROVER_uninterpreted_log(double);
double __CPROVER_uninterpreted_log1p(double);
double __CPROVER_uninterpreted_sqrt(double);
double __CPROVER_uninterpreted_atan2(double, double);
double __CPROVER_uninterpreted_acos(double);
double __CPROVER_uninterpreted_asin(double);
double __CPROVER_uninterpreted_atan(double);
double __CPROVER_uninterpreted_sin(double);
double __CPROVER_uninterpreted_cos(double);
double __CPROVER_uninterpreted_exp(double);
double __CPROVER_uninterpreted_fmod(double, double);
double __CPROVER_uninterpreted_pow(double, double);

/* log: NaN for x<0 or NaN, -inf at 0, 0 at 1, finite for finite x>0, sign as mathematically */
double gm2v_log(double x)
{
  double r = __CPROVER_uninterpreted_log(x);
  if (isnan(x) || x < 0.0) return NAN;
  if (x == 0.0) return -INFINITY;
  if (isinf(x)) return INFINITY;
  if (x == 1.0) return 0.0;
  __CPROVER_assume(!isnan(r) && !isinf(r));
  __CPROVER_assume((x > 1.0) ? (r > 0.0) : (r < 0.0));
  __CPROVER_assume(r >= -745.2 && r <= 709.8);
  return r;
}
double gm2v_log1p(double x)
{
  double r = __CPROVER_uninterpreted_log1p(x);
  if (isnan(x) || x < -1.0) return NAN;
  if (x == -1.0) return -INFINITY;
  if (isinf(x)) return INFINITY;
  if (x == 0.0) return x;
  __CPROVER_assume(!isnan(r) && !isinf(r));
  __CPROVER_assume((x > 0.0) ? (r > 0.0 && r <= x) : (r < 0.0 && r <= x));
  return r;
}
/* sqrt: NaN for x<0, exact at 0/1/inf, non-negative, finite, monotone bounds */
double gm2v_sqrt(double x)
{
  double r = __CPROVER_uninterpreted_sqrt(x);
  if (isnan(x) || x < 0.0) return NAN;
  if (x == 0.0) return x;
  if (isinf(x)) return INFINITY;
  if (x == 1.0) return 1.0;
  if (x == 4.0) return 2.0;
  if (x == 0.25) return 0.5;
  __CPROVER_assume(!isnan(r) && !isinf(r) && r > 0.0);
  __CPROVER_assume((x > 1.0) ? (r > 1.0 && r < x) : (r < 1.0 && r > x));
  return r;
}
double gm2v_atan2(double y, double x)
{
  double r = __CPROVER_uninterpreted_atan2(y, x);
  if (isnan(x) || isnan(y)) return NAN;
  __CPROVER_assume(!isnan(r) && r >= -3.1415926535897936 && r <= 3.1415926535897936);
  __CPROVER_assume((y > 0.0) ? (r > 0.0) : 1);
  __CPROVER_assume((y < 0.0) ? (r < 0.0) : 1);
  return r;
}
double gm2v_acos(double x)
{
  double r = __CPROVER_uninterpreted_acos(x);
  if (isnan(x) || x < -1.0 || x > 1.0) return NAN;
  __CPROVER_assume(!isnan(r) && r >= 0.0 && r <= 3.1415926535897936);
  return r;
}
double gm2v_asin(double x)
{
  double r = __CPROVER_uninterpreted_asin(x);
  if (isnan(x) || x < -1.0 || x > 1.0) return NAN;
  __CPROVER_assume(!isnan(r) && r >= -1.5707963267948968 && r <= 1.5707963267948968);
  return r;
}
double gm2v_atan(double x)
{
  double r = __CPROVER_uninterpreted_atan(x);
  if (isnan(x)) return NAN;
  __CPROVER_assume(!isnan(r) && r >= -1.5707963267948968 && r <= 1.5707963267948968);
  return r;
}
double gm2v_sin(double x)
{
  double r = __CPROVER_uninterpreted_sin(x);
  if (isnan(x) || isinf(x)) return NAN;
  __CPROVER_assume(!isnan(r) && r >= -1.0 && r <= 1.0);
  return r;
}
double gm2v_cos(double x)
{
  double r = __CPROVER_uninterpreted_cos(x);
  if (isnan(x) || isinf(x)) return NAN;
  __CPROVER_assume(!isnan(r) && r >= -1.0 && r <= 1.0);
  return r;
}
double gm2v_exp(double x)
{
  double r = __CPROVER_uninterpreted_exp(x);
  if (isnan(x)) return NAN;
  __CPROVER_assume(!isnan(r) && r >= 0.0);
  return r;
}
double gm2v_fmod(double x, double y)
{
  double r = __CPROVER_uninterpreted_fmod(x, y);
  if (isnan(x) || isnan(y) || isinf(x) || y == 0.0) return NAN;
  if (isinf(y)) return x;
  __CPROVER_assume(!isnan(r) && fabs(r) < fabs(y) && fabs(r) <= fabs(x));
  __CPROVER_assume((x >= 0.0) ? (r >= 0.0) : (r <= 0.0));
  return r;
}
double gm2v_pow(double x, double y)
{
  double r = __CPROVER_uninterpreted_pow(x, y);
  if (y == 0.0) return 1.0;
  if (isnan(x) || isnan(y)) return NAN;
  __CPROVER_assume((x > 0.0) ? (!isnan(r) && r >= 0.0) : 1);
  return r;
}
'''
